import PydraModel.Typing.NoConfusion
import PydraModel.Typing.Idem
import PydraModel.Typing.IdemU
/-
C20 — Accepted field values conform to the declared type.

Property theorems only; the model is `Typing/Model.lean` (`coerce` mirrors `TypeParser.coerce`), the class
tables are regenerated from the running interpreter (`Gen/TypeTables.lean`), helper lemmas and the
inductions live in `Typing/{Tables,Lemmas,Sound,NoConfusion,Idem}.lean`.

`cfgOf sac` is `TypeParser(T, superclass_auto_cast=sac)` with the default tables; `fieldCfg`
(= `cfgOf fieldParserSac`, the flag is read from builder.py::make_converter) is the parser on task fields.
-/
namespace PydraModel.Typing

/-- "strings are never silently split into sequences nor sequences joined into strings" -/
def NoStrSeqConfusion (v v' : V) : Prop :=
  (v.isStr = true → StrImage v v') ∧ (isContainerCls v.cls = true → v'.isStr = false)

/-- The property at full strength.  NOT provable for the pinned tree: see `C20_full_statement_false`. -/
def C20_full_statement : Prop :=
  ∀ (sac : Bool) (t : Ty) (v v' : V), t.wf = true → v.wf = true → coerce (cfgOf sac) t v = .ok v' →
    conforms t v' = true ∧ coerce (cfgOf sac) t v' = .ok v' ∧ NoStrSeqConfusion v v'

/-! ## Clause 1: the stored value conforms to the declared type, element types included -/

/-- PARTIAL (exclusions: D13 — a str reaching a set/abstract-sequence pattern; restriction: no `bytes`
    object is expanded elementwise).  Any type of the grammar, any depth, any value. -/
theorem C20_sound_partial (sac : Bool) (t : Ty) (v v' : V) (hw : t.wf = true)
    (h13 : d13 t v = false) (hb : bytesAtGen t v = false)
    (h : coerce (cfgOf sac) t v = .ok v') : conforms t v' = true :=
  coerce_sound sac t v v' hw h13 hb h

example : (Ty.gen .dict [.cls .str, .union [.gen .list [.cls .float], .cls .NoneType]]).wf = true := by decide
example : d13 (.gen .dict [.cls .str, .union [.gen .list [.cls .float], .cls .NoneType]])
    (.map .dict [.atom .str (.str "k".toList)] [.seq .tuple [.atom .int (.int 1), .atom .bool (.int 1)]]) = false := by
  decide +kernel
example : bytesAtGen (.gen .dict [.cls .str, .union [.gen .list [.cls .float], .cls .NoneType]])
    (.map .dict [.atom .str (.str "k".toList)] [.seq .tuple [.atom .int (.int 1), .atom .bool (.int 1)]]) = false := by
  decide +kernel
/-- non-vacuity: a nested value that is really coerced (tuple -> list, int/bool -> float) -/
example : coerce (cfgOf true) (.gen .dict [.cls .str, .union [.gen .list [.cls .float], .cls .NoneType]])
    (.map .dict [.atom .str (.str "k".toList)] [.seq .tuple [.atom .int (.int 1), .atom .bool (.int 1)]])
    = .ok (.map .dict [.atom .str (.str "k".toList)] [.seq .list [.atom .float (.int 1), .atom .float (.int 1)]]) := by
  with_unfolding_all rfl

/-! ## The converter on task fields: rejection happens at assignment -/

theorem fieldCfg_eq : fieldCfg = cfgOf fieldParserSac := rfl

/-- The value stored by a task field (attrs converter of `make_converter`: pre-converters, then the type
    checker as the LAST stage) conforms to the declared type. PARTIAL as above. -/
theorem C20_field_sound_partial (t : Ty) (v v' : V) (hw : t.wf = true)
    (h13 : d13 t (preConvert t v) = false) (hb : bytesAtGen t (preConvert t v) = false)
    (h : assignField t v = .ok v') : conforms t v' = true := by
  unfold assignField at h
  rw [fieldCfg_eq] at h
  exact coerce_sound _ t _ v' hw h13 hb h

/-- FULL: a value the type checker rejects is rejected by the assignment itself — the attribute keeps its
    old value and the error is the checker's; nothing is deferred to run time. -/
theorem C20_reject_at_assignment (old : V) (t : Ty) (v : V) (e : Err)
    (h : assignField t v = .error e) : setField old t v = (old, some e) := by
  unfold setField; rw [h]

/-- FULL: an accepted assignment stores exactly the converter's result. -/
theorem C20_assign_stores_result (old : V) (t : Ty) (v v' : V)
    (h : assignField t v = .ok v') : setField old t v = (v', none) := by
  unfold setField; rw [h]

example : assignField (.gen .list [.cls .str]) (.atom .str (.str "abc".toList)) = .error (.type false) := by
  with_unfolding_all rfl

/-! ## Clause 2: no str <-> sequence confusion -/

/-- PARTIAL (exclusion D13): a `str` is only passed through unchanged, turned into a non-str atom built from
    the whole string (path-like), or wrapped whole in a one-element list by `MultiInputObj[...]`. -/
theorem C20_no_str_split_partial (sac : Bool) (s : Str) (t : Ty) (v' : V) (hw : t.wf = true)
    (h13 : d13 t (.atom .str (.str s)) = false)
    (h : coerce (cfgOf sac) t (.atom .str (.str s)) = .ok v') : StrImage (.atom .str (.str s)) v' :=
  coerce_strImage sac s t v' hw h13 h

/-- a `StrImage` of a string of length ≥ 2 is never a container with as many items as the string has
    characters: it is an atom or a ONE-element list -/
theorem StrImage_not_chars {v w : V} (h : StrImage v w) (c : Cls) (l : List V) (hw : w = .seq c l)
    (hv : ∀ c' l', v ≠ .seq c' l') : l.length = 1 := by
  cases h with
  | same => exact absurd hw (hv c l)
  | atom c' p _ => cases hw
  | wrap w' _ => cases hw; rfl

example : d13 (.union [.cls .Path, .gen MIO [.cls .str]]) (.atom .str (.str "a/b".toList)) = false := by decide +kernel
example : coerce (cfgOf true) (.gen MIO [.cls .str]) (.atom .str (.str "abc".toList))
    = .ok (.seq .list [.atom .str (.str "abc".toList)]) := by with_unfolding_all rfl

/-- PARTIAL (exclusion D13b): a container (list, tuple, set, frozenset, dict, range, dict view,
    MultiInputObj) is never stored as a `str`. -/
theorem C20_no_seq_join_partial (sac : Bool) (t : Ty) (v v' : V) (hw : t.wf = true)
    (hk : isContainerCls v.cls = true) (h13b : d13b t v = false)
    (h : coerce (cfgOf sac) t v = .ok v') : v'.isStr = false :=
  coerce_noJoin sac t v v' hw hk h13b h

example : d13b (.union [.cls .str, .gen .list [.cls .str]]) (.seq .tuple [.atom .str (.str "a".toList)]) = false := by
  decide +kernel
example : coerce (cfgOf true) (.union [.cls .str, .gen .list [.cls .str]]) (.seq .tuple [.atom .str (.str "a".toList)])
    = .ok (.seq .list [.atom .str (.str "a".toList)]) := by with_unfolding_all rfl

/-! ## Clause 3: coercing an accepted value again leaves it unchanged -/

/-- PARTIAL, restricted grammar `_unionFree`: for types without `Union`/`Optional` (any nesting of classes, Any,
    list/tuple/set/frozenset/dict/abstract-container generics, `tuple[T, ...]`, `MultiInputObj[T]`), under the
    same exclusions as clause 1, the stored value is a fixpoint of the coercion.  For unions the statement is
    false on the pinned tree (`C20_witness_union`, finding D13u). -/
theorem C20_idem_partial_unionFree (sac : Bool) (t : Ty) (v v' : V) (hw : t.wf = true) (hu : t.unionFree = true)
    (h13 : d13 t v = false) (hb : bytesAtGen t v = false)
    (h : coerce (cfgOf sac) t v = .ok v') : coerce (cfgOf sac) t v' = .ok v' :=
  coerce_idem sac t v v' hw hu h13 hb h

example : (Ty.gen .dict [.cls .str, .gen .set [.cls .float]]).unionFree = true := by decide
/-- non-vacuity: the first pass really changes the value (list -> set, int/bool -> float, duplicates dropped) -/
example : coerce (cfgOf true) (.gen .dict [.cls .str, .gen .set [.cls .float]])
    (.map .dict [.atom .str (.str "k".toList)] [.seq .list [.atom .int (.int 1), .atom .bool (.int 1), .atom .int (.int 2)]])
    = .ok (.map .dict [.atom .str (.str "k".toList)] [.seq .set [.atom .float (.int 1), .atom .float (.int 2)]]) := by
  with_unfolding_all rfl

/-- PARTIAL, whole grammar including `Union` / `Optional`: under the exclusions of clause 1 and the decidable
    hypothesis `d13u sac t v = false` — every Union node met by the value is *stable*: the first alternative that
    accepts the value yields `y`, and each earlier alternative rejects `y` with a TypeError or returns `y` itself —
    the stored value is a fixpoint of the coercion.  `d13u` is exactly the match rule of finding D13u. -/
theorem C20_idem_partial_stableUnions (sac : Bool) (t : Ty) (v v' : V) (hw : t.wf = true)
    (hu : d13u sac t v = false) (h13 : d13 t v = false) (hb : bytesAtGen t v = false)
    (h : coerce (cfgOf sac) t v = .ok v') : coerce (cfgOf sac) t v' = .ok v' :=
  coerce_idemU sac t v v' hw hu h13 hb h

/-- non-vacuity: a nested Optional / Union whose nodes are stable for the value, and a real coercion -/
example : d13u true (.gen .list [.union [.gen .tuple [.cls .float, .cls .Path], .cls .NoneType]])
    (.seq .tuple [.seq .list [.atom .int (.int 1), .atom .str (.str "a".toList)], .atom .NoneType .unit]) = false := by
  decide +kernel
example : coerce (cfgOf true) (.gen .list [.union [.gen .tuple [.cls .float, .cls .Path], .cls .NoneType]])
    (.seq .tuple [.seq .list [.atom .int (.int 1), .atom .str (.str "a".toList)], .atom .NoneType .unit])
    = .ok (.seq .list [.seq .tuple [.atom .float (.int 1), .atom .PosixPath (.str "a".toList)], .atom .NoneType .unit]) := by
  with_unfolding_all rfl
/-- the D13u witness is outside the hypothesis -/
example : d13u false (.union [.cls .frozenset, .cls .tuple]) (.seq .set [.atom .int (.int 1), .atom .int (.int 2)]) = true := by
  decide +kernel

/-! ## The table-level reason (re-proved over the regenerated tables on every run) -/

/-- Outside the D13 origin list no generic origin accepts a `str`, with or without superclass_auto_cast:
    `list[str]`, `tuple[str, ...]`, `MutableSequence[str]`, `dict[..]`, … reject "abc".
    Removing `(str, Sequence)` from NOT_COERCIBLE_DEFAULT makes this `decide` fail. -/
theorem C20_tables_strSafe (sac : Bool) (o : Cls) (n : Nat) (hg : genOK o n = true)
    (hn : d13Origins.contains o = false) :
    issub .str o = false ∧ coercibleRT (cfgOf sac) .str o = false :=
  C20_tables_strSafe_gen sac o n hg hn

/-- …and no sequence class except the set-like ones (D13b) is accepted by `str` -/
theorem C20_tables_noJoin (sac : Bool) (k : Cls) (hk : isContainerCls k = true)
    (hc : coercibleRT (cfgOf sac) k .str = true) : isSetCls k = true :=
  (C20_tables_seqJoin sac k .str hk rfl hc).1

/-! ## Witnesses: the pinned tree violates the full statement -/

def sAbc : V := .atom .str (.str "abc".toList)
def ch (c : Char) : V := .atom .str (.str [c])

/-- D13: `TypeParser(set[str])("abc")` is `{'a', 'b', 'c'}` -/
theorem C20_witness_set :
    coerce fieldCfg (.gen .set [.cls .str]) sAbc = .ok (.seq .set [ch 'a', ch 'b', ch 'c']) := by
  with_unfolding_all rfl

/-- length of the str a coercion returned (observer used to evaluate witnesses in the kernel) -/
def okStrLen : R V → Option Nat
  | .ok (.atom _ (.str s)) => some s.length
  | _ => none

/-- D13: `TypeParser(ty.Sequence[str])("abc")` is the str `"['a', 'b', 'c']"`, and coercing that again
    gives yet another string (75 characters: the repr of the list of its 15 characters) — not idempotent -/
theorem C20_witness_seq :
    coerce fieldCfg (.gen .Sequence [.cls .str]) sAbc = .ok (.atom .str (.str "['a', 'b', 'c']".toList))
    ∧ coerce fieldCfg (.gen .Sequence [.cls .str]) (.atom .str (.str "['a', 'b', 'c']".toList))
        ≠ .ok (.atom .str (.str "['a', 'b', 'c']".toList)) := by
  refine ⟨by with_unfolding_all rfl, ?_⟩
  intro h
  have h2 : okStrLen (coerce fieldCfg (.gen .Sequence [.cls .str]) (.atom .str (.str "['a', 'b', 'c']".toList))) = some 75 := by
    decide +kernel
  rw [h] at h2
  revert h2; decide

/-- D13b: `TypeParser(str)({1, 2})` is the str `'{1, 2}'` -/
theorem C20_witness_set_to_str :
    coerce fieldCfg (.cls .str) (.seq .set [.atom .int (.int 1), .atom .int (.int 2)])
      = .ok (.atom .str (.str "{1, 2}".toList)) := by
  with_unfolding_all rfl

/-- D13c: with superclass_auto_cast, `Sequence[bool]` stores `b"ab"` as `b"\x01\x01"`, which does not conform -/
theorem C20_witness_bytes_bool :
    coerce (cfgOf true) (.gen .Sequence [.cls .bool]) (.atom .bytes (.bytes [97, 98])) = .ok (.atom .bytes (.bytes [1, 1]))
    ∧ conforms (.gen .Sequence [.cls .bool]) (.atom .bytes (.bytes [1, 1])) = false := by
  exact ⟨by with_unfolding_all rfl, by decide +kernel⟩

/-- D13u: `Union[frozenset, tuple]` stores `{1, 2}` as `(1, 2)` and `(1, 2)` as `frozenset({1, 2})` -/
theorem C20_witness_union :
    coerce (cfgOf false) (.union [.cls .frozenset, .cls .tuple]) (.seq .set [.atom .int (.int 1), .atom .int (.int 2)])
      = .ok (.seq .tuple [.atom .int (.int 1), .atom .int (.int 2)])
    ∧ coerce (cfgOf false) (.union [.cls .frozenset, .cls .tuple]) (.seq .tuple [.atom .int (.int 1), .atom .int (.int 2)])
      = .ok (.seq .frozenset [.atom .int (.int 1), .atom .int (.int 2)]) := by
  exact ⟨by with_unfolding_all rfl, by with_unfolding_all rfl⟩

/-- the full statement is false for the model of the pinned tree (witness: D13, `set[str]` and "abc") -/
theorem C20_full_statement_false : ¬ C20_full_statement := by
  intro hfull
  have h := hfull fieldParserSac (.gen .set [.cls .str]) sAbc _ (by decide) (by decide +kernel) C20_witness_set
  have h3 := h.2.2.1 (isStr_atom_str _)
  have := StrImage_not_chars h3 .set [ch 'a', ch 'b', ch 'c'] rfl (by intro c' l' hh; cases hh)
  revert this; decide

end PydraModel.Typing
