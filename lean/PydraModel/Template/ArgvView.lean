import PydraModel.Template.Model
import PydraModel.Argv.Model
/-
The parsed template as the Argv engine's model sees it (definitions only; used by the driver and by the argv theorem).
-/
namespace PydraModel.Template
open PydraModel

/-- a plain argstr as the Argv engine sees it (`Argv.parseArgstr` of an option word, or of "") -/
def toArgstr (s : Str) : Argv.Argstr := ⟨s, false, if s = [] then [] else [.lit s]⟩

/-- `tp is bool` after stripping `Optional` in `_command_pos_args` -/
def isBoolTy (t : Ty) : Bool := t.base == .single (.builtin "bool".toList) && !t.multi

def toArgvField (f : Field) : Argv.Field :=
  { name := f.name, isBool := isBoolTy f.ty, isMulti := f.ty.multi, argstr := f.argstr.map toArgstr,
    position := f.position.map Int.ofNat, sep := [' '] }

/-- the definition handed to the Argv engine: the command-line fields of the parsed template, in order -/
def toArgvFields (d : Def) : List Argv.Field := (d.fields.filter isArgument).map toArgvField

end PydraModel.Template
