import PydraModel.Template.ArgvBridge4
/-
C25, argv clause — bridge, part 5: every token's command-line field, the numbered definition as Argv triples.
-/
namespace PydraModel.Template
open PydraModel

theorem ebind_ok {α β ε} {f : α → Except ε β} {x : Except ε α} {b : β} (h : x.bind f = .ok b) :
    ∃ a, x = .ok a ∧ f a = .ok b := by
  cases x with
  | error e => simp [Except.bind] at h
  | ok a => exact ⟨a, rfl, h⟩

theorem specAttrs_facts (tbl : FmtTable) (o : Option Str) (r : Role) (a : ArgSpec) (ty : Ty) (d : Default)
    (h : specAttrs tbl o r a = .ok (ty, d)) :
    ty.multi = (a.mod == .plus || a.mod == .star) ∧ (isBoolTy ty = true → a.types = some "bool".toList) := by
  unfold specAttrs at h
  obtain ⟨dflt, _, h⟩ := ebind_ok h
  obtain ⟨base, hbase, h⟩ := ebind_ok h
  obtain ⟨dv, _, h⟩ := map_ok' h
  simp only [Prod.mk.injEq] at h
  obtain ⟨rfl, _⟩ := h
  refine ⟨rfl, ?_⟩
  intro hb
  simp only [isBoolTy, Bool.and_eq_true, beq_dec, decide_eq_true_eq] at hb
  have hb1 : base = .single (.builtin "bool".toList) := hb.1
  unfold specBase at hbase
  cases hty : a.types with
  | none =>
    rw [hty] at hbase
    simp only [Except.ok.injEq] at hbase
    rw [← hbase] at hb1
    exfalso
    cases o with
    | none => revert hb1; decide
    | some s => simp only [Option.isNone_some, Bool.false_eq_true, if_false] at hb1; revert hb1; decide
  | some ts =>
    rw [hty] at hbase
    simp only [] at hbase
    rw [hb1] at hbase
    rw [typeOfStr_bool tbl ts hbase]

/-- the command-line field of a token carries the token's option word, multiplicity and flag-ness -/
theorem specToken_fieldOf (tbl : FmtTable) (t : GTok) (new : List Field) (h : specToken tbl t = .ok new)
    (hnb : notBoolArg t = true) : ∃ f, new.filter isArgument = [f] ∧ FieldOf t f := by
  cases t with
  | arg o r a =>
    simp only [specToken, specFields] at h
    obtain ⟨td, htd, rfl⟩ := map_ok' h
    obtain ⟨hm, hbool⟩ := specAttrs_facts tbl o r a td.1 td.2 htd
    have hnotbool : isBoolTy td.1 = false := by
      cases hb : isBoolTy td.1 with
      | false => rfl
      | true =>
        have := hbool hb
        simp [notBoolArg, this] at hnb
    unfold fieldList
    cases r <;>
      simp [beq_dec, isArgument, mkField, List.filter, bne, FieldOf, tokOpt, tokMulti, tokBool, hm, hnotbool]
  | flag o n d =>
    simp only [specToken] at h
    obtain ⟨f, hf, rfl⟩ := map_ok' h
    unfold specFlag at hf
    have hshape : ∃ dv, f = mkField n .arg { base := .single (.builtin "bool".toList), multi := false, optional := false }
        (some o) (.lit dv) none false false := by
      cases d with
      | none =>
        simp only [pure, Except.pure, bind, Except.bind] at hf
        split at hf
        · cases hf
        · cases hf; exact ⟨_, rfl⟩
      | some s =>
        simp only [pure, Except.pure, bind, Except.bind] at hf
        split at hf
        · cases hf
        · split at hf
          · cases hf
          · cases hf; exact ⟨_, rfl⟩
    obtain ⟨dv, rfl⟩ := hshape
    refine ⟨mkField n .arg { base := .single (.builtin "bool".toList), multi := false, optional := false }
        (some o) (.lit dv) none false false, ?_, ?_⟩
    · simp [isArgument, mkField, List.filter, bne, beq_dec]
    · simp [FieldOf, isArgument, mkField, tokOpt, tokMulti, tokBool, isBoolTy, bne, beq_dec]

/-- token list and field list correspond one to one, in order -/
inductive AllFieldOf : List GTok → List Field → Prop
  | nil : AllFieldOf [] []
  | cons {t f ts fs} : FieldOf t f → AllFieldOf ts fs → AllFieldOf (t :: ts) (f :: fs)

/-- along the whole template: the command-line fields correspond to the tokens, one to one and in order -/
theorem specAll_fieldsOf (tbl : FmtTable) (ts : List GTok) :
    ∀ fs, specAll tbl ts = .ok fs → (∀ t ∈ ts, notBoolArg t = true) →
      AllFieldOf ts (fs.filter isArgument) := by
  induction ts with
  | nil => intro fs h _; simp [specAll] at h; subst h; exact .nil
  | cons t ts ih =>
    intro fs h hnb
    rw [specAll_cons] at h
    obtain ⟨new, hnew, h⟩ := bind_ok' h
    obtain ⟨rest, hrest, rfl⟩ := map_ok' h
    obtain ⟨f, hf, hF⟩ := specToken_fieldOf tbl t new hnew (hnb t (by simp))
    rw [List.filter_append, hf]
    exact .cons hF (ih rest hrest (fun u hu => hnb u (by simp [hu])))

/-! ### numbering -/

/-- the command-line fields of `number s fs`: the same fields with positions `s, s+1, …` -/
def renumber : Nat → List Field → List Field
  | _, [] => []
  | s, f :: l => { f with position := some s } :: renumber (s + 1) l

theorem number_filter (fs : List Field) : ∀ s, (number s fs).filter isArgument = renumber s (fs.filter isArgument) := by
  induction fs with
  | nil => intro s; rfl
  | cons f fs ih =>
    intro s
    by_cases ha : isArgument f = true
    · have : isArgument { f with position := some s } = true := by simpa [isArgument] using ha
      simp only [number, ha, if_true, List.filter_cons, this, renumber, ih (s + 1)]
    · have ha' : isArgument f = false := by simpa using ha
      simp only [number, ha', Bool.false_eq_true, if_false, List.filter_cons, ih s]

/-- the triples (field, position, value) of the numbered fields -/
def toTriples : Nat → List Field → List Argv.Value → List Argv.Triple
  | s, f :: l, v :: vs => (toArgvField { f with position := some s }, (s : Int), v) :: toTriples (s + 1) l vs
  | _, _, _ => []

theorem toTriples_fields : ∀ (l : List Field) (vs : List Argv.Value) (s : Nat), vs.length = l.length →
    (toTriples s l vs).map (·.1) = (renumber s l).map toArgvField ∧ (toTriples s l vs).map (·.2.2) = vs := by
  intro l
  induction l with
  | nil => intro vs s h; cases vs <;> simp_all [toTriples, renumber]
  | cons f l ih =>
    intro vs s h
    cases vs with
    | nil => simp at h
    | cons v vs =>
      obtain ⟨i1, i2⟩ := ih vs (s + 1) (by simpa using h)
      simp [toTriples, renumber, i1, i2]

theorem toTriples_props : ∀ (l : List Field) (vs : List Argv.Value) (s : Nat), 0 < s →
    (∀ t ∈ toTriples s l vs, t.1.position = some t.2.1 ∧ 0 < t.2.1 ∧ (s : Int) ≤ t.2.1) ∧
    ((toTriples s l vs).map (·.2.1)).Pairwise (· < ·) := by
  intro l
  induction l with
  | nil => intro vs s _; simp [toTriples]
  | cons f l ih =>
    intro vs s hs
    cases vs with
    | nil => simp [toTriples]
    | cons v vs =>
      obtain ⟨i1, i2⟩ := ih vs (s + 1) (by omega)
      refine ⟨?_, ?_⟩
      · intro t ht
        simp only [toTriples, List.mem_cons] at ht
        rcases ht with rfl | ht
        · simp [toArgvField]; omega
        · obtain ⟨a, b, c⟩ := i1 t ht
          exact ⟨a, b, by push_cast at c; omega⟩
      · simp only [toTriples, List.map_cons, List.pairwise_cons]
        refine ⟨?_, i2⟩
        intro p hp
        obtain ⟨t, ht, rfl⟩ := List.mem_map.mp hp
        have := (i1 t ht).2.2
        push_cast at this
        omega

end PydraModel.Template
