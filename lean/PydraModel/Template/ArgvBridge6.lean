import PydraModel.Template.ArgvBridge5
/-
C25, argv clause — bridge, part 6: the triples of a parsed template are template-shaped, their words are the
tokens' straightforward reading.
-/
namespace PydraModel.Template
open PydraModel

theorem tokOpt_plain (t : GTok) (h : tokOK t = true) : Argv.PlainStr (tokOpt t) ∧ '{' ∉ tokOpt t := by
  cases t with
  | arg o r a =>
    simp only [tokOK, Bool.and_eq_true] at h
    cases o with
    | none => exact ⟨fun c hc => by simp [tokOpt] at hc, by simp [tokOpt]⟩
    | some s => exact optOK_plain h.1
  | flag o n d =>
    simp only [tokOK, Bool.and_eq_true] at h
    exact optOK_plain h.1.1

theorem fw_token (t : GTok) (f : Field) (s : Nat) (v : Argv.Value) (hF : FieldOf t f) :
    fw (toArgvField { f with position := some s }) v = tokenArgs t v := by
  obtain ⟨_, ha, hm, hb⟩ := hF
  unfold fw toArgvField
  simp only [ha, Option.map_some, toArgstr]
  unfold fieldWords
  simp only [hb, hm]
  cases t with
  | flag o n d =>
    simp only [tokBool, if_true, tokOpt, tokenArgs]
    cases v with
    | unset => rfl
    | many xs => rfl
    | one x => cases x with
      | bool b => cases b <;> rfl
      | _ => rfl
  | arg o r a =>
    simp only [tokBool, Bool.false_eq_true, if_false, tokOpt, tokMulti, tokenArgs]
    cases v <;> rfl

theorem safeFV_token (t : GTok) (f : Field) (s : Nat) (v : Argv.Value) (hF : FieldOf t f) (hv : SafeTV t v) :
    SafeFV (toArgvField { f with position := some s }) v := by
  obtain ⟨_, _, hm, hb⟩ := hF
  unfold SafeFV toArgvField
  simp only [hb, hm]
  cases t with
  | flag o n d => simpa [tokBool, SafeTV] using hv
  | arg o r a =>
    simp only [tokBool, Bool.false_eq_true, if_false, tokMulti]
    cases v with
    | unset => trivial
    | one x => exact hv
    | many xs => exact hv

theorem shaped_token (t : GTok) (f : Field) (s : Nat) (hF : FieldOf t f) (hok : tokOK t = true) :
    Shaped (toArgvField { f with position := some s }) := by
  obtain ⟨_, ha, _, _⟩ := hF
  obtain ⟨h1, h2⟩ := tokOpt_plain t hok
  exact ⟨tokOpt t, by simp [toArgvField, ha], h1, h2, rfl⟩

theorem toTriples_template (ts : List GTok) (l : List Field) (h : AllFieldOf ts l) :
    ∀ (vs : List Argv.Value) (s : Nat), vs.length = ts.length → (∀ t ∈ ts, tokOK t = true) →
      (∀ tv ∈ List.zip ts vs, SafeTV tv.1 tv.2) →
      (∀ x ∈ toTriples s l vs, Shaped x.1 ∧ SafeFV x.1 x.2.2) ∧
      (toTriples s l vs).flatMap (fun x => fw x.1 x.2.2) = (List.zip ts vs).flatMap (fun tv => tokenArgs tv.1 tv.2) ∧
      l.length = ts.length := by
  induction h with
  | nil => intro vs s _ _ _; simp [toTriples]
  | @cons t f ts l hF _ ih =>
    intro vs s hlen hok hsafe
    cases vs with
    | nil => simp at hlen
    | cons v vs =>
      obtain ⟨i1, i2, i3⟩ := ih vs (s + 1) (by simpa using hlen) (fun u hu => hok u (by simp [hu]))
        (fun tv htv => hsafe tv (by simp [List.zip_cons_cons, htv]))
      have hv : SafeTV t v := hsafe (t, v) (by simp [List.zip_cons_cons])
      refine ⟨?_, ?_, by simp [i3]⟩
      · intro x hx
        simp only [toTriples, List.mem_cons] at hx
        rcases hx with rfl | hx
        · exact ⟨shaped_token t f s hF (hok t (by simp)), safeFV_token t f s v hF hv⟩
        · exact i1 x hx
      · simp only [toTriples, List.flatMap_cons, List.zip_cons_cons, i2, fw_token t f s v hF]

end PydraModel.Template
