import PydraModel.Template.Lemmas4
/-
Helper lemmas for C25, part 5: the token loop over a rendered template, the executable, positions.
-/
namespace PydraModel.Template

theorem steps_append (tbl : FmtTable) (xs ys : List Str) :
    ∀ st, steps tbl st (xs ++ ys) = (steps tbl st xs >>= fun st' => steps tbl st' ys) := by
  induction xs with
  | nil => intro st; rfl
  | cons x xs ih =>
    intro st
    simp only [List.cons_append, steps, bind, Except.bind]
    cases step tbl st x with
    | error e => rfl
    | ok st' => simpa [bind, Except.bind] using ih st'

theorem specFlag_name (o n : Str) (d : Option Str) (f : Field) (h : specFlag o n d = .ok f) : f.name = n := by
  have := specToken_names [] (.flag o n d) [f] (by simp [specToken, h, Except.map]) f (by simp)
  simpa [tokName] using this

/-- one grammatical token, starting from a state with no pending option -/
theorem steps_render (tbl : FmtTable) (fs : List Field) (t : GTok) (h : tokOK t = true)
    (hn : tokName t ∉ fs.map (·.name)) :
    steps tbl { fields := fs, option := none } (render t)
      = (specToken tbl t).map (fun new => { fields := fs ++ new, option := none }) := by
  cases t with
  | arg o r a =>
    simp only [tokOK, Bool.and_eq_true] at h
    simp only [tokName] at hn
    cases o with
    | none =>
      simp only [render, steps, step, bind, Except.bind, lex_render_arg r a h.2, parseArgBody_render tbl none r a h.2,
        specToken, specFields]
      cases specAttrs tbl none r a with
      | error e => rfl
      | ok td =>
        simp only [Except.map, addFields_fieldList tbl fs none r a td.1 td.2 hn]
        rfl
    | some s =>
      simp only [render, steps, step, bind, Except.bind, lex_option h.1, lex_render_arg r a h.2,
        parseArgBody_render tbl (some s) r a h.2, specToken, specFields]
      cases specAttrs tbl (some s) r a with
      | error e => rfl
      | ok td =>
        simp only [Except.map, addFields_fieldList tbl fs (some s) r a td.1 td.2 hn]
        rfl
  | flag o n d =>
    have h' := h
    simp only [tokOK, Bool.and_eq_true] at h
    simp only [tokName] at hn
    simp only [render, steps, step, bind, Except.bind, lex_render_flag o n d h', parseFlagBody_render o n d h.1.2 h.2,
      specToken]
    cases hf : specFlag o n d with
    | error e => rfl
    | ok f =>
      have hname := specFlag_name o n d f hf
      simp only [Except.map]
      rw [addField_ok fs f (clashes_of_name_not_mem fs f (by rw [hname]; exact hn))]
      rfl

theorem specAll_cons (tbl : FmtTable) (t : GTok) (ts : List GTok) :
    specAll tbl (t :: ts) = (specToken tbl t >>= fun f => (specAll tbl ts).map (fun fs => f ++ fs)) := by
  simp only [specAll, bind, Except.bind, pure, Except.pure]
  cases specToken tbl t with
  | error e => rfl
  | ok f => cases specAll tbl ts <;> rfl

/-- the whole loop over a rendered token list -/
theorem steps_all (tbl : FmtTable) (ts : List GTok) :
    ∀ fs : List Field, (∀ t ∈ ts, tokOK t = true) → (ts.map tokName).Nodup →
      (∀ t ∈ ts, tokName t ∉ fs.map (·.name)) →
      steps tbl { fields := fs, option := none } (ts.flatMap render)
        = (specAll tbl ts).map (fun new => { fields := fs ++ new, option := none }) := by
  induction ts with
  | nil => intro fs _ _ _; simp [steps, specAll, Except.map]
  | cons t ts ih =>
    intro fs hok hnd hfresh
    rw [List.flatMap_cons, steps_append, steps_render tbl fs t (hok t (by simp)) (hfresh t (by simp)), specAll_cons]
    cases hst : specToken tbl t with
    | error e => rfl
    | ok new =>
      simp only [Except.map, bind, Except.bind]
      have hnd' : tokName t ∉ ts.map tokName ∧ (ts.map tokName).Nodup := by
        rw [List.map_cons] at hnd
        exact List.nodup_cons.mp hnd
      have hfresh' : ∀ t' ∈ ts, tokName t' ∉ (fs ++ new).map (·.name) := by
        intro t' ht' hm
        simp only [List.map_append, List.mem_append] at hm
        rcases hm with hm | hm
        · exact hfresh t' (by simp [ht']) hm
        · obtain ⟨f, hf, hfn⟩ := List.mem_map.mp hm
          have := specToken_names tbl t new hst f hf
          apply hnd'.1
          rw [← this, hfn]
          exact List.mem_map_of_mem ht'
      rw [ih (fs ++ new) (fun t' ht' => hok t' (by simp [ht'])) hnd'.2 hfresh']
      cases specAll tbl ts with
      | error e => rfl
      | ok rest => simp [Except.map]

/-! ### the executable -/

theorem render_head_startsArgs (t : GTok) (h : tokOK t = true) :
    ∃ w ws, render t = w :: ws ∧ startsArgs w = true := by
  cases t with
  | arg o r a =>
    simp only [tokOK, Bool.and_eq_true] at h
    cases o with
    | none => exact ⟨_, _, rfl, rfl⟩
    | some s =>
      obtain ⟨run, rfl, _, _⟩ := optOK_shape h.1
      exact ⟨_, _, rfl, rfl⟩
  | flag o n d =>
    simp only [tokOK, Bool.and_eq_true] at h
    obtain ⟨run, rfl, _, _⟩ := optOK_shape h.1.1
    exact ⟨_, _, rfl, rfl⟩

theorem exe_split (exe : List Str) (ts : List GTok) (hexe : ∀ w ∈ exe, (!startsArgs w) = true)
    (hok : ∀ t ∈ ts, tokOK t = true) :
    (exe ++ ts.flatMap render).takeWhile (fun t => !startsArgs t) = exe ∧
    (exe ++ ts.flatMap render).dropWhile (fun t => !startsArgs t) = ts.flatMap render := by
  cases ts with
  | nil =>
    simp only [List.flatMap_nil, List.append_nil]
    exact ⟨takeWhile_all _ exe hexe, dropWhile_all _ exe hexe⟩
  | cons t ts =>
    obtain ⟨w, ws, hw, hs⟩ := render_head_startsArgs t (hok t (by simp))
    rw [List.flatMap_cons, hw, List.cons_append]
    have hc : (!startsArgs w) = false := by simp [hs]
    exact ⟨takeWhile_append_stop _ exe w _ hexe hc, dropWhile_append_stop _ exe w _ hexe hc⟩

/-! ### positions -/

theorem remaining_fresh (n : Nat) : remainingPositions [] (n + 1) 1 = List.range' 1 n := by
  unfold remainingPositions
  simp

theorem assign_eq_number (fs : List Field) (h : ∀ f ∈ fs, f.position = none) :
    ∀ s k, (fs.filter isArgument).length ≤ k → assign fs (List.range' s k) = number s fs := by
  induction fs with
  | nil => intro s k _; rfl
  | cons f fs ih =>
    intro s k hk
    have hf := h f (by simp)
    have ih' := ih (fun g hg => h g (by simp [hg]))
    by_cases ha : isArgument f = true
    · simp only [List.filter_cons, ha, if_true, List.length_cons] at hk
      obtain ⟨k', rfl⟩ : ∃ k', k = k' + 1 := ⟨k - 1, by omega⟩
      rw [List.range'_succ]
      simp only [assign, number, ha, Bool.not_true, Bool.false_eq_true, if_false, if_true, hf]
      rw [ih' (s + 1) k' (by omega)]
    · have ha' : isArgument f = false := by simpa using ha
      simp only [List.filter_cons, ha', Bool.false_eq_true, if_false] at hk
      simp only [assign, number, ha', Bool.not_false, if_true, Bool.false_eq_true, if_false]
      rw [ih' s k hk]

theorem assignPositions_fresh (fs : List Field) (h : ∀ f ∈ fs, f.position = none) :
    assignPositions fs = number 1 fs := by
  unfold assignPositions
  have : (fs.filter isArgument).filterMap (·.position) = [] := by
    rw [List.filterMap_eq_nil_iff]
    intro f hf
    exact h f (List.mem_filter.mp hf).1
  simp only [this, remaining_fresh]
  exact assign_eq_number fs h 1 _ (Nat.le_refl _)

theorem specToken_positions (tbl : FmtTable) (t : GTok) (new : List Field) (h : specToken tbl t = .ok new) :
    ∀ f ∈ new, f.position = none := by
  cases t with
  | arg o r a =>
    simp only [specToken, specFields] at h
    obtain ⟨td, _, rfl⟩ := map_ok' h
    intro f hf
    unfold fieldList at hf
    cases r with
    | input =>
      simp only [beq_dec, reduceCtorEq, decide_false, Bool.false_eq_true, if_false, List.mem_singleton] at hf
      subst hf; rfl
    | output =>
      simp only [beq_dec, reduceCtorEq, decide_false, decide_true, Bool.false_eq_true, if_false, if_true, List.mem_singleton] at hf
      subst hf; rfl
    | modify =>
      simp only [beq_dec, reduceCtorEq, decide_false, decide_true, Bool.false_eq_true, if_false, if_true,
        List.mem_cons, List.not_mem_nil, or_false] at hf
      rcases hf with hf | hf <;> (subst hf; rfl)
  | flag o n d =>
    simp only [specToken] at h
    obtain ⟨f, hf, rfl⟩ := map_ok' h
    intro g hg
    simp only [List.mem_singleton] at hg
    subst hg
    unfold specFlag at hf
    cases d with
    | none =>
      simp only [pure, Except.pure, bind, Except.bind] at hf
      split at hf
      · cases hf
      · cases hf; rfl
    | some s =>
      simp only [pure, Except.pure, bind, Except.bind] at hf
      split at hf
      · cases hf
      · split at hf
        · cases hf
        · cases hf; rfl

theorem specAll_positions (tbl : FmtTable) (ts : List GTok) :
    ∀ fs, specAll tbl ts = .ok fs → ∀ f ∈ fs, f.position = none := by
  induction ts with
  | nil => intro fs h; simp [specAll] at h; subst h; simp
  | cons t ts ih =>
    intro fs h
    rw [specAll_cons] at h
    obtain ⟨new, hnew, h⟩ := bind_ok' h
    obtain ⟨rest, hrest, rfl⟩ := map_ok' h
    intro f hf
    rcases List.mem_append.mp hf with hf | hf
    · exact specToken_positions tbl t new hnew f hf
    · exact ih rest hrest f hf

end PydraModel.Template
