import PydraModel.Template.Lemmas3
/-
Helper lemmas for C25, part 4: flags, the token loop, the executable, positions.
-/
namespace PydraModel.Template

/-! ### `--flag<name[=default]>` -/

theorem parseFlagBody_render (o n : Str) (d : Option Str) (hn : nameOK n = true)
    (hd : (match d with | none => true | some s => s != [] && !s.contains '>' && !s.contains '=') = true) :
    parseFlagBody o (flagBody n d) = specFlag o n d := by
  simp only [nameOK, Bool.and_eq_true] at hn
  have hne : '=' ∉ n := by
    intro hm
    have := (all_iff _ _).mp hn.2 '=' hm
    revert this; decide
  unfold parseFlagBody specFlag flagBody
  cases d with
  | none =>
    simp [hne]
  | some s =>
    simp only [Bool.and_eq_true, Bool.not_eq_true', List.contains_eq_mem, decide_eq_false_iff_not] at hd
    have hc : (n ++ '=' :: s).contains '=' = true := by simp
    simp only [hc, if_true]
    rw [splitTwo_mid '=' n s hne hd.2]
    simp only [bind, Except.bind, pure, Except.pure]

/-! ### `add_arg` without clashes -/

def clashes (fs : List Field) (f : Field) : Bool := fs.any (fun g => g.name == f.name && sameDict g.kind f.kind)

theorem addField_ok (fs : List Field) (f : Field) (h : clashes fs f = false) : addField fs f = .ok (fs ++ [f]) := by
  unfold addField
  unfold clashes at h
  simp [h]

theorem clashes_of_name_not_mem (fs : List Field) (f : Field) (h : f.name ∉ fs.map (·.name)) : clashes fs f = false := by
  unfold clashes
  rw [List.any_eq_false]
  intro g hg
  have : g.name ≠ f.name := by
    intro e
    exact h (by rw [← e]; exact List.mem_map_of_mem hg)
  simp [this]

/-- the fields one token contributes: all named `nm`, and no two of them in the same dictionary -/
theorem addFields_fieldList (tbl : FmtTable) (fs : List Field) (o : Option Str) (r : Role) (a : ArgSpec) (ty : Ty)
    (d : Default) (h : a.name ∉ fs.map (·.name)) :
    addFields fs (fieldList tbl o r a ty d) = .ok (fs ++ fieldList tbl o r a ty d) := by
  unfold fieldList
  cases r with
  | input =>
    simp only [beq_dec, reduceCtorEq, decide_false, Bool.false_eq_true, if_false]
    simp only [addFields, bind, Except.bind]
    rw [addField_ok _ _ (clashes_of_name_not_mem _ _ (by simpa [mkField] using h))]
  | output =>
    simp only [beq_dec, reduceCtorEq, decide_false, decide_true, Bool.false_eq_true, if_false, if_true]
    simp only [addFields, bind, Except.bind]
    rw [addField_ok _ _ (clashes_of_name_not_mem _ _ (by simpa [mkField] using h))]
  | modify =>
    simp only [beq_dec, reduceCtorEq, decide_false, decide_true, Bool.false_eq_true, if_false, if_true]
    simp only [addFields, bind, Except.bind]
    rw [addField_ok _ _ (clashes_of_name_not_mem _ _ (by simpa [mkField] using h))]
    simp only []
    have hc : clashes (fs ++ [mkField a.name Kind.out ty none Default.noDefault none false true])
        (mkField a.name Kind.arg ty (some (o.getD [])) d none true false) = false := by
      unfold clashes
      rw [List.any_eq_false]
      intro g hg
      rcases List.mem_append.mp hg with hg | hg
      · have : g.name ≠ a.name := by
          intro e
          exact h (by rw [← e]; exact List.mem_map_of_mem hg)
        simp [mkField, this]
      · simp only [List.mem_singleton] at hg
        subst hg
        simp [mkField, sameDict]
    rw [addField_ok _ _ hc]
    simp

theorem fieldList_names (tbl : FmtTable) (o : Option Str) (r : Role) (a : ArgSpec) (ty : Ty) (d : Default) :
    ∀ f ∈ fieldList tbl o r a ty d, f.name = a.name := by
  intro f hf
  unfold fieldList at hf
  cases r with
  | input =>
    simp only [beq_dec, reduceCtorEq, decide_false, Bool.false_eq_true, if_false, List.mem_singleton] at hf
    subst hf; rfl
  | output =>
    simp only [beq_dec, reduceCtorEq, decide_false, decide_true, Bool.false_eq_true, if_false, if_true, List.mem_singleton] at hf
    subst hf; rfl
  | modify =>
    simp only [beq_dec, reduceCtorEq, decide_false, decide_true, Bool.false_eq_true, if_false, if_true,
      List.mem_cons, List.not_mem_nil, or_false] at hf
    rcases hf with hf | hf <;> (subst hf; rfl)

theorem map_ok' {α β ε} {f : α → β} {x : Except ε α} {b : β} (h : Except.map f x = .ok b) : ∃ a, x = .ok a ∧ b = f a := by
  cases x with
  | error e => simp [Except.map] at h
  | ok a => simp [Except.map] at h; exact ⟨a, rfl, h.symm⟩

theorem bind_ok' {α β ε} {f : α → Except ε β} {x : Except ε α} {b : β} (h : (x >>= f) = .ok b) :
    ∃ a, x = .ok a ∧ f a = .ok b := by
  cases x with
  | error e => simp [bind, Except.bind] at h
  | ok a => exact ⟨a, rfl, h⟩

/-! ### one token of the loop -/

/-- every field a token introduces carries the token's name -/
theorem specToken_names (tbl : FmtTable) (t : GTok) (new : List Field) (h : specToken tbl t = .ok new) :
    ∀ f ∈ new, f.name = tokName t := by
  cases t with
  | arg o r a =>
    simp only [specToken, specFields] at h
    obtain ⟨td, _, rfl⟩ := map_ok' h
    exact fieldList_names tbl o r a td.1 td.2
  | flag o n d =>
    simp only [specToken] at h
    obtain ⟨f, hf, rfl⟩ := map_ok' h
    intro g hg
    simp only [List.mem_singleton] at hg
    subst hg
    unfold specFlag at hf
    cases d with
    | none =>
      simp only [pure, Except.pure, bind, Except.bind] at hf
      split at hf
      · cases hf
      · cases hf; rfl
    | some s =>
      simp only [pure, Except.pure, bind, Except.bind] at hf
      split at hf
      · cases hf
      · split at hf
        · cases hf
        · cases hf; rfl

end PydraModel.Template
