import PydraModel.Template.Model
/-
Reference semantics of the template language (C25): the *structured* grammar of a template, how it is written down
(`render`) and the fields it spells (`fieldsOf`).  `fieldsOf` never looks at characters: it reads the parts of a token.
It shares with the model only the value-level functions (default literals, type atoms, coercion, extension lookup).
-/
namespace PydraModel.Template

inductive Role | input | output | modify
  deriving DecidableEq, Repr

inductive ModSpec
  | plain
  | optional            -- `?`
  | plus                -- `+`
  | star                -- `*`
  | dflt (src : Str)    -- `=src`
  | tmpl (t : Str)      -- `$t`
  deriving DecidableEq, Repr

/-- `<[out||modify|]name[:types][?|+|*|=default|$template]>` -/
structure ArgSpec where
  name : Str
  types : Option Str     -- the comma separated type atoms as written
  mod : ModSpec
  deriving DecidableEq, Repr

inductive GTok
  | arg (opt : Option Str) (role : Role) (a : ArgSpec)      -- `[-o ]<…>`
  | flag (opt : Str) (name : Str) (dflt : Option Str)       -- `--flag<name[=default]>`
  deriving DecidableEq, Repr

/-! ### how a template is written -/

def rolePrefix : Role → Str
  | .input => []
  | .output => ['o', 'u', 't', '|']
  | .modify => ['m', 'o', 'd', 'i', 'f', 'y', '|']

def typesPart : Option Str → Str
  | none => []
  | some ts => ':' :: ts

def modSuffix : ModSpec → Str
  | .plain => []
  | .optional => ['?']
  | .plus => ['+']
  | .star => ['*']
  | .dflt s => '=' :: s
  | .tmpl t => '$' :: t

def argBody (r : Role) (a : ArgSpec) : Str := rolePrefix r ++ (a.name ++ (typesPart a.types ++ modSuffix a.mod))

def flagBody (n : Str) (d : Option Str) : Str := n ++ (match d with | none => [] | some s => '=' :: s)

def render : GTok → List Str
  | .arg none r a => ['<' :: (argBody r a ++ ['>'])]
  | .arg (some o) r a => [o, '<' :: (argBody r a ++ ['>'])]
  | .flag o n d => [o ++ '<' :: (flagBody n d ++ ['>'])]

def renderAll (exe : List Str) (ts : List GTok) : List Str := exe ++ ts.flatMap render

/-! ### what a template spells -/

/-- the default literal of a token (`=src`), read first; `$` is refused on anything but an output -/
def specDefaultLit (r : Role) (a : ArgSpec) : Except Err (Option Lit) :=
  match a.mod with
  | .dflt s => (defaultValue s).map some
  | .tmpl _ => if r == .output then .ok none else .error .templateOnInput
  | _ => .ok none

/-- the type written after `:`, or the default type: a file-system object for arguments, `str` for options -/
def specBase (tbl : FmtTable) (opt : Option Str) (a : ArgSpec) : Except Err BaseTy :=
  match a.types with
  | some ts => typeOfStr tbl ts
  | none => .ok (BaseTy.single (if opt.isNone then fsObject else .builtin "str".toList))

/-- the field's default: `None` for `?`, an empty list for `*`, the coerced literal for `=` -/
def specDefault (r : Role) (a : ArgSpec) (ty : Ty) (dflt : Option Lit) : Except Err Default :=
  match a.mod, dflt with
  | .optional, _ => .ok (Default.lit (.sc .none))
  | .star, _ => .ok Default.emptyList
  | .dflt _, some v => if r == .output then .error (.unmodelled "outarg-default") else (coerceDefault ty v).map Default.lit
  | _, _ => .ok Default.noDefault

/-- type and default of one `<…>` token.  The default literal is read first, then `$` is refused on inputs, then the type. -/
def specAttrs (tbl : FmtTable) (opt : Option Str) (r : Role) (a : ArgSpec) : Except Err (Ty × Default) :=
  (specDefaultLit r a).bind fun dflt =>
  (specBase tbl opt a).bind fun base =>
  let ty : Ty := { base := base, multi := a.mod == .plus || a.mod == .star, optional := a.mod == .optional }
  (specDefault r a ty dflt).map fun d => (ty, d)

/-- the field objects of one `<…>` token with the given type and default: the field itself, preceded by the
    pass-through output of a `modify|` token -/
def fieldList (tbl : FmtTable) (opt : Option Str) (r : Role) (a : ArgSpec) (ty : Ty) (default : Default) : List Field :=
  let isOut := r == .output
  let pt : Option Str :=
    if isOut then
      match a.mod with
      | .tmpl t => some t
      | _ => some (a.name ++ (extOf tbl ty).getD [])
    else none
  let main := mkField a.name (if isOut then .outarg else .arg) ty (some (opt.getD [])) default pt (r == .modify) false
  if r == .modify then [mkField a.name .out ty none .noDefault none false true, main] else [main]

/-- the fields of one `<…>` token -/
def specFields (tbl : FmtTable) (opt : Option Str) (r : Role) (a : ArgSpec) : Except Err (List Field) :=
  (specAttrs tbl opt r a).map (fun td => fieldList tbl opt r a td.1 td.2)

/-- the field of one `--flag<name[=default]>` token -/
def specFlag (opt name : Str) (d : Option Str) : Except Err Field := do
  let v ← match d with
    | some s => evalLit s
    | none => pure (Lit.sc (.bool false))
  let ty : Ty := { base := .single (.builtin "bool".toList), multi := false, optional := false }
  let dv ← coerceDefault ty v
  pure (mkField name .arg ty (some opt) (.lit dv) none false false)

def specToken (tbl : FmtTable) : GTok → Except Err (List Field)
  | .arg o r a => specFields tbl o r a
  | .flag o n d => (specFlag o n d).map (fun f => [f])

/-- all fields, in template order; the first token that cannot be read decides the error -/
def specAll (tbl : FmtTable) : List GTok → Except Err (List Field)
  | [] => .ok []
  | t :: ts => do
    let f ← specToken tbl t
    let fs ← specAll tbl ts
    pure (f ++ fs)

/-- position `i+1` for the `i`-th field that is part of the command line (`out` passthroughs carry none) -/
def number : Nat → List Field → List Field
  | _, [] => []
  | n, f :: fs => if isArgument f then { f with position := some n } :: number (n + 1) fs else f :: number n fs

/-- THE SPEC: the task a template spells out -/
def fieldsOf (tbl : FmtTable) (exe : List Str) (ts : List GTok) : Except Err Def :=
  (specAll tbl ts).map (fun fs => { exe := exe, fields := number 1 fs })

/-! ### the lexical side conditions of the grammar (all decidable) -/

def tokName : GTok → Str
  | .arg _ _ a => a.name
  | .flag _ n _ => n

/-- type text: letters, digits, `_ , - . /` (what MIME-like names and `...` need) -/
def isTypeChar (c : Char) : Bool := c.isAlphanum || c == '_' || c == ',' || c == '-' || c == '.' || c == '/'

def nameOK (n : Str) : Bool := n != [] && n.all isIdentChar

/-- text after `=` or `$`: non-empty, no `>`, no further `=`, and not ending in a character the suffix tests look for -/
def tailTextOK (s : Str) : Bool :=
  s != [] && !s.contains '>' && !s.contains '=' &&
    !(s.getLast? == some '?' || s.getLast? == some '+' || s.getLast? == some '*')

def modOK : ModSpec → Bool
  | .dflt s => tailTextOK s
  | .tmpl t => tailTextOK t && !t.contains '$'
  | _ => true

def optOK (o : Str) : Bool :=
  match o with
  | '-' :: r => r != [] && r.all isOptChar
  | _ => false

def argOK (a : ArgSpec) : Bool :=
  nameOK a.name && (match a.types with | none => true | some ts => ts.all isTypeChar) && modOK a.mod

def tokOK : GTok → Bool
  | .arg o _ a => (match o with | none => true | some s => optOK s) && argOK a
  | .flag o n d => optOK o && nameOK n && (match d with | none => true | some s => s != [] && !s.contains '>' && !s.contains '=')

/-- the documented token grammar: every token lexically well formed, field names pairwise distinct,
    the executable words neither `<…` nor `-…` and at least one of them -/
def Grammar (exe : List Str) (ts : List GTok) : Bool :=
  exe != [] && exe.all (fun w => !startsArgs w) && ts.all tokOK && (ts.map tokName).Nodup

end PydraModel.Template
