import PydraModel.Props.C22
import PydraModel.Template.Lemmas6
/-
C25, argv clause — bridge to the Argv engine (imported read-only).

Part 1 (this file): facts about the Argv model for *template-shaped* definitions: every field has an explicit
position, the positions increase along the definition, argstrs are plain option words (or empty), the separator is
a blank.  For such definitions `Argv.runDef` gives the executable followed by each field's words in definition order.
Built from the Argv engine's own lemmas (`buildEntries_ok`, `positionSort_exe`, `C22_order`, `C22_flag`,
`fieldArgs_spec`); the D26 situation cannot arise because no position is implicit.
-/
namespace PydraModel.Template
open PydraModel

/-! ### `definePositions` when every position is explicit -/

theorem allDistinct_of_nodup : ∀ l : List Int, l.Nodup → Argv.allDistinct l = true := by
  intro l
  induction l with
  | nil => intro _; rfl
  | cons x xs ih =>
    intro h
    have h' := List.nodup_cons.mp h
    simp [Argv.allDistinct, h'.1, ih h'.2]

theorem fillPositions_explicit (l stack : List Int) : Argv.fillPositions (l.map some) stack = .ok l := by
  induction l with
  | nil => rfl
  | cons p l ih => simp [Argv.fillPositions, ih]

theorem explicitOf_map_some (l : List Int) : Argv.explicitOf (l.map some) = l := by
  induction l with
  | nil => rfl
  | cons p l ih => simpa [Argv.explicitOf] using ih

theorem definePositions_explicit (l : List Int) (hnd : (l ++ [0]).Nodup) (hpos : ∀ p ∈ l, 0 ≤ p) :
    Argv.definePositions (l.map some) = .ok l := by
  unfold Argv.definePositions Argv.remainingPositions
  simp only
  rw [Argv.occ_eq, explicitOf_map_some]
  have hslot : l.map (Argv.slotOf ((l.map some ++ [some 0]).length : Nat)) = l := by
    rw [List.map_congr_left (g := id)]
    · simp
    · intro p hp; simp [Argv.slotOf, hpos p hp]
  rw [hslot, allDistinct_of_nodup _ hnd]
  simp only [if_true]
  exact fillPositions_explicit l _

/-! ### the documented order of entries whose positions already increase -/

theorem sortAsc_sorted_id {α} : ∀ l : List (Int × α), l.Pairwise (fun a b => a.1 < b.1) → Argv.Spec.sortAsc l = l := by
  intro l
  induction l with
  | nil => intro _; rfl
  | cons e l ih =>
    intro h
    have h' := List.pairwise_cons.mp h
    have : Argv.Spec.sortAsc (e :: l) = Argv.Spec.insertAsc e (Argv.Spec.sortAsc l) := rfl
    rw [this, ih h'.2]
    cases l with
    | nil => rfl
    | cons x xs =>
      have := h'.1 x (by simp)
      simp [Argv.Spec.insertAsc, Int.le_of_lt this]

theorem ordered_increasing {α} (es : List (Option Int × α)) (ps : List Int) (hk : es.map (·.1) = ps.map some)
    (hinc : ps.Pairwise (· < ·)) (hpos : ∀ p ∈ ps, 0 ≤ p) : Argv.Spec.ordered es = es.map (·.2) := by
  have hshape : ∀ (es : List (Option Int × α)) (ps : List Int), es.map (·.1) = ps.map some → (∀ p ∈ ps, 0 ≤ p) →
      es.filterMap Argv.Spec.selNonneg = List.zip ps (es.map (·.2)) ∧ es.filterMap Argv.Spec.selNone = [] ∧
      es.filterMap Argv.Spec.selNeg = [] := by
    intro es
    induction es with
    | nil => intro ps h _; cases ps <;> simp_all
    | cons e es ih =>
      intro ps h hp
      cases ps with
      | nil => simp at h
      | cons p ps =>
        simp only [List.map_cons, List.cons.injEq] at h
        obtain ⟨i1, i2, i3⟩ := ih ps h.2 (fun q hq => hp q (by simp [hq]))
        have hp0 := hp p (by simp)
        have hn : ¬ p < 0 := by omega
        simp [Argv.Spec.selNonneg, Argv.Spec.selNone, Argv.Spec.selNeg, h.1, hp0, hn, i1, i2, i3]
  obtain ⟨h1, h2, h3⟩ := hshape es ps hk hpos
  have hlen : ps.length = (es.map (·.2)).length := by
    have := congrArg List.length hk; simpa using this.symm
  unfold Argv.Spec.ordered
  rw [h1, h2, h3]
  have hsorted : (List.zip ps (es.map (·.2))).Pairwise (fun a b => a.1 < b.1) := by
    have : (List.zip ps (es.map (·.2))).map (·.1) = ps := by
      rw [List.map_fst_zip]; omega
    rw [← this] at hinc
    exact List.pairwise_map.mp hinc
  rw [sortAsc_sorted_id _ hsorted]
  simp only [Argv.Spec.sortAsc, List.foldr_nil, List.map_nil, List.append_nil]
  rw [List.map_snd_zip]; omega

end PydraModel.Template
