import PydraModel.Template.ArgvBridge3
/-
C25, argv clause — bridge, part 4: from the parsed template to a template-shaped Argv definition.
-/
namespace PydraModel.Template
open PydraModel

/-! ### option words are harmless text -/

theorem all_small (P : Char → Bool) (h : ∀ n : Fin 128, P (Char.ofNat n.val) = true) (c : Char) (hc : c.toNat < 128) :
    P c = true := by
  have := h ⟨c.toNat, hc⟩
  simpa [Char.ofNat_toNat] using this

theorem alnum_small (c : Char) (h : c.isAlphanum = true) : c.toNat < 128 := by
  simp only [Char.isAlphanum, Char.isAlpha, Char.isUpper, Char.isLower, Char.isDigit, Bool.or_eq_true, Bool.and_eq_true,
    decide_eq_true_eq] at h
  have e : c.toNat = c.val.toNat := rfl
  rcases h with (⟨_, h⟩ | ⟨_, h⟩) | ⟨_, h⟩ <;> (rw [e]; have := UInt32.le_iff_toNat_le.mp h; simp at this; omega)

theorem optChar_small (c : Char) (h : isOptChar c = true) : c.toNat < 128 := by
  simp only [isOptChar, Bool.or_eq_true, beq_iff_eq] at h
  rcases h with (h | h) | h
  · exact alnum_small c h
  · subst h; decide
  · subst h; decide

theorem optChar_plain (c : Char) (h : isOptChar c = true) : Argv.plainChar c = true ∧ c ≠ '{' := by
  have hs := optChar_small c h
  have := all_small (fun c => !isOptChar c || (Argv.plainChar c && c != '{')) (by decide) c hs
  simp [h] at this
  exact this

theorem optOK_plain {o : Str} (h : optOK o = true) : Argv.PlainStr o ∧ '{' ∉ o := by
  obtain ⟨run, rfl, _, hrun⟩ := optOK_shape h
  have hall : ∀ c ∈ '-' :: run, isOptChar c = true := by
    intro c hc
    rcases List.mem_cons.mp hc with rfl | hc
    · decide
    · exact hrun c hc
  exact ⟨fun c hc => (optChar_plain c (hall c hc)).1, fun hm => (optChar_plain '{' (hall '{' hm)).2 rfl⟩

/-! ### the Argv view of a parsed field and of a token -/

def tokOpt : GTok → Str
  | .arg o _ _ => o.getD []
  | .flag o _ _ => o

def tokMulti : GTok → Bool
  | .arg _ _ a => a.mod == .plus || a.mod == .star
  | .flag _ _ _ => false

def tokBool : GTok → Bool
  | .arg _ _ _ => false
  | .flag _ _ _ => true

/-- THE STRAIGHTFORWARD READING of one token with its value: a flag prints its option when true; any other token
    prints its option (if it has one) followed by the value; `+`/`*` tokens repeat that for every element; a tuple
    value prints the option once, then its elements. -/
def tokenArgs (t : GTok) (v : Argv.Value) : List Str :=
  match t, v with
  | .flag o _ _, .one (.bool true) => [o]
  | .flag _ _ _, _ => []
  | .arg _ _ _, .unset => []
  | .arg o _ _, .one x => preWords (o.getD []) ++ [x.render]
  | .arg o _ a, .many xs =>
    if a.mod == .plus || a.mod == .star then xs.flatMap (fun x => preWords (o.getD []) ++ [x.render])
    else preWords (o.getD []) ++ xs.map Argv.Scalar.render

/-- arg tokens typed `bool` are not covered by the argv theorem (a positional bool prints an empty word) -/
def notBoolArg : GTok → Bool
  | .arg _ _ a => a.types != some "bool".toList
  | .flag _ _ _ => true

/-- safe value for a token -/
def SafeTV (t : GTok) (v : Argv.Value) : Prop :=
  match t with
  | .flag _ _ _ => v = .unset ∨ ∃ b, v = .one (.bool b)
  | .arg _ _ a =>
    match v with
    | .unset => True
    | .one x => Argv.SafeScalar x ∧ x.truthy = true
    | .many xs => (∀ x ∈ xs, Argv.SafeScalar x ∧ x.truthy = true) ∧ ((a.mod == .plus || a.mod == .star) = true ∨ xs ≠ [])

/-- what the argv clause needs to know about the command-line field of a token -/
def FieldOf (t : GTok) (f : Field) : Prop :=
  isArgument f = true ∧ f.argstr = some (tokOpt t) ∧ f.ty.multi = tokMulti t ∧ isBoolTy f.ty = tokBool t

/-! ### `bool` is only produced by the type text "bool" -/

theorem splitOnChar_ne_nil' (c : Char) (s : Str) : splitOnChar c s ≠ [] := by
  induction s with
  | nil => simp [splitOnChar]
  | cons x xs ih =>
    unfold splitOnChar
    split
    · simp
    · split <;> simp

theorem splitOnChar_singleton (c : Char) : ∀ (s p : Str), splitOnChar c s = [p] → s = p := by
  intro s
  induction s with
  | nil => intro p h; simp [splitOnChar] at h; exact h.symm
  | cons x xs ih =>
    intro p h
    by_cases hx : x = c
    · subst hx
      have : splitOnChar x (x :: xs) = [] :: splitOnChar x xs := by simp [splitOnChar]
      rw [this] at h
      simp only [List.cons.injEq] at h
      exact absurd h.2 (splitOnChar_ne_nil' x xs)
    · cases hs : splitOnChar c xs with
      | nil => exact absurd hs (splitOnChar_ne_nil' c xs)
      | cons q qs =>
        simp only [splitOnChar, hx, hs, if_false, List.cons.injEq] at h
        obtain ⟨rfl, rfl⟩ := h
        rw [ih q hs]

theorem mapM_singleton {α β ε} (f : α → Except ε β) : ∀ (l : List α) (x : β), l.mapM f = .ok [x] →
    ∃ a, l = [a] ∧ f a = .ok x := by
  intro l x h
  cases l with
  | nil => simp [pure, Except.pure] at h
  | cons a l =>
    rw [List.mapM_cons] at h
    obtain ⟨b, hb, h⟩ := bind_ok' h
    obtain ⟨bs, hbs, h⟩ := bind_ok' h
    simp only [pure, Except.pure, Except.ok.injEq, List.cons.injEq] at h
    obtain ⟨rfl, rfl⟩ := h
    cases l with
    | nil => exact ⟨a, rfl, hb⟩
    | cons a' l' =>
      rw [List.mapM_cons] at hbs
      obtain ⟨b', _, hbs⟩ := bind_ok' hbs
      obtain ⟨bs', _, hbs⟩ := bind_ok' hbs
      simp [pure, Except.pure] at hbs

theorem atomOfStr_bool (tbl : FmtTable) (tp : Str) (h : atomOfStr tbl tp = .ok (some (.builtin "bool".toList))) :
    tp = "bool".toList := by
  unfold atomOfStr at h
  split at h
  · split at h <;> simp at h
  · split at h
    · simp at h
    · split at h
      · simpa using h
      · split at h <;> simp at h

theorem baseOfAtoms_single (as : List (Option Atom)) (a : Atom) (h : baseOfAtoms as = .ok (.single a)) : as = [some a] := by
  unfold baseOfAtoms at h
  split at h
  · simp at h; subst h; rfl
  · simp at h
  · split at h <;> simp at h

/-- a type text that parses to `bool` is the text "bool" -/
theorem typeOfStr_bool (tbl : FmtTable) (ts : Str) (h : typeOfStr tbl ts = .ok (.single (.builtin "bool".toList))) :
    ts = "bool".toList := by
  unfold typeOfStr at h
  obtain ⟨as, has, h⟩ := bind_ok' h
  have := baseOfAtoms_single as _ h
  subst this
  obtain ⟨tp, hsplit, htp⟩ := mapM_singleton _ _ _ has
  rw [splitOnChar_singleton ',' ts tp hsplit]
  exact atomOfStr_bool tbl tp htp

end PydraModel.Template
