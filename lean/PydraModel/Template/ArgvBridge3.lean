import PydraModel.Template.ArgvBridge2
/-
C25, argv clause — bridge, part 3: the whole argument vector of a template-shaped definition.
-/
namespace PydraModel.Template
open PydraModel

theorem triples_of_maps (T : List Argv.Triple) :
    Argv.triples (T.map (·.1)) (T.map (·.2.1)) (T.map (·.2.2)) = T := by
  induction T with
  | nil => rfl
  | cons t T ih => simp [Argv.triples, ih]

theorem flatten_live (T : List Argv.Triple) (hsafe : ∀ t ∈ T, SafeFV t.1 t.2.2) :
    ((T.filter Argv.Triple.live).map (fun t => fw t.1 t.2.2)).flatten = T.flatMap (fun t => fw t.1 t.2.2) := by
  induction T with
  | nil => rfl
  | cons t T ih =>
    have ih' := ih (fun u hu => hsafe u (by simp [hu]))
    by_cases hl : t.live = true
    · simp [List.filter_cons, hl, ih', List.flatMap_cons]
    · have hl' : t.live = false := by simpa using hl
      simp [List.filter_cons, hl', ih', List.flatMap_cons, fw_not_live t hl' (hsafe t (by simp))]

theorem filterMap_keys {α} : ∀ (l : List (Option Int × α)) (ks : List Int), l.map (·.1) = ks.map some →
    l.filterMap (·.1) = ks := by
  intro l
  induction l with
  | nil => intro ks h; cases ks <;> simp_all
  | cons e l ih =>
    intro ks h
    cases ks with
    | nil => simp at h
    | cons k ks =>
      simp only [List.map_cons, List.cons.injEq] at h
      simp [List.filterMap_cons, h.1, ih ks h.2]

/-- ARGV OF A TEMPLATE-SHAPED DEFINITION (any number of fields, any value sizes): every position explicit and
    increasing along the definition, plain option words as argstrs, safe values ⇒ slot filling, `_command_args` and
    `position_sort` give the executable followed by each field's words in definition order, and raise nothing. -/
theorem runDef_shaped (exe : List Str) (T : List Argv.Triple)
    (hpos : ∀ t ∈ T, t.1.position = some t.2.1)
    (hinc : (T.map (·.2.1)).Pairwise (· < ·)) (hp : ∀ t ∈ T, 0 < t.2.1)
    (hshape : ∀ t ∈ T, Shaped t.1) (hsafe : ∀ t ∈ T, SafeFV t.1 t.2.2) :
    Argv.runDef exe (T.map (·.1)) (T.map (·.2.2)) [] = .ok (exe ++ T.flatMap (fun t => fw t.1 t.2.2)) := by
  have hps : (T.map (·.1)).map (·.position) = (T.map (·.2.1)).map some := by
    rw [List.map_map, List.map_map]
    exact List.map_congr_left (fun t ht => hpos t ht)
  have h0 : (0 : Int) ∉ T.map (·.2.1) := by
    intro h
    obtain ⟨t, ht, h0⟩ := List.mem_map.mp h
    have := hp t ht
    omega
  have hnd : (T.map (·.2.1)).Nodup := hinc.imp (fun h => Int.ne_of_lt h)
  have hdef : Argv.definePositions ((T.map (·.1)).map (·.position)) = .ok (T.map (·.2.1)) := by
    rw [hps]
    apply definePositions_explicit
    · rw [List.nodup_append]
      refine ⟨hnd, by simp, ?_⟩
      intro a ha b hb
      simp only [List.mem_singleton] at hb
      subst hb
      exact fun e => h0 (e ▸ ha)
    · intro p hpm
      obtain ⟨t, ht, rfl⟩ := List.mem_map.mp hpm
      exact Int.le_of_lt (hp t ht)
  unfold Argv.runDef
  simp only [hdef]
  unfold Argv.commandArgs
  rw [Argv.bindAll_eq, triples_of_maps]
  generalize henv : Argv.envOf (T.map Argv.Triple.toBound) = env
  let g : Argv.Bound → List Str := fun b => fw b.fld b.val
  have hlivepos : ((T.map Argv.Triple.toBound).filter (·.live)).filterMap (·.pos) = (T.filter Argv.Triple.live).map (·.2.1) := by
    rw [Argv.live_filter_bound, List.filterMap_map]
    induction (T.filter Argv.Triple.live) with
    | nil => rfl
    | cons t l ih => simp [List.filterMap_cons, Argv.Triple.toBound, ih]
  have hsub : List.Sublist ((T.filter Argv.Triple.live).map (·.2.1)) (T.map (·.2.1)) :=
    (List.filter_sublist (l := T) (p := Argv.Triple.live)).map _
  have hbuild := Argv.buildEntries_ok env g (T.map Argv.Triple.toBound) [0]
    (by
      intro b hb _
      obtain ⟨t, ht, rfl⟩ := List.mem_map.mp hb
      obtain ⟨s, ha, hs, hbr, hsep⟩ := hshape t ht
      refine ⟨toArgstr s, t.2.1, ha, rfl, ?_⟩
      have := fieldArgs_shaped env t.1 s t.2.2 hs hbr hsep (hsafe t ht)
      simp only [Argv.Triple.toBound, g, fw, ha]
      exact this)
    (by rw [hlivepos]; exact hnd.sublist hsub)
    (by
      intro p hp'
      simp only [List.mem_singleton] at hp'
      subst hp'
      rw [hlivepos]
      exact fun hh => h0 (hsub.subset hh))
  rw [hbuild]
  simp only [Argv.emap_ok]
  have hne0 : ∀ e ∈ ((T.map Argv.Triple.toBound).filter (·.live)).map (fun b => (b.pos, g b)), e.1 ≠ some 0 := by
    intro e he
    rw [Argv.live_filter_bound] at he
    simp only [List.map_map, List.mem_map, Function.comp] at he
    obtain ⟨t, ht, rfl⟩ := he
    simp only [Argv.Triple.toBound, ne_eq, Option.some.injEq]
    intro hz
    have := hp t (List.mem_filter.mp ht).1
    omega
  rw [Argv.positionSort_exe exe _ hne0]
  have hkeys : (((T.map Argv.Triple.toBound).filter (·.live)).map (fun b => (b.pos, g b))).map (·.1)
      = ((T.filter Argv.Triple.live).map (·.2.1)).map some := by
    rw [Argv.live_filter_bound]
    simp [List.map_map, Function.comp_def, Argv.Triple.toBound]
  have hnodupkeys : ((((T.map Argv.Triple.toBound).filter (·.live)).map (fun b => (b.pos, g b))).filterMap (·.1)).Nodup := by
    have := filterMap_keys _ _ hkeys
    rw [this]
    exact hnd.sublist hsub
  rw [Argv.C22_order _ hnodupkeys,
    ordered_increasing _ _ hkeys (hinc.sublist hsub) (by
      intro p hpm
      obtain ⟨t, ht, rfl⟩ := List.mem_map.mp (hsub.subset hpm)
      exact Int.le_of_lt (hp t ht))]
  rw [Argv.live_filter_bound]
  simp only [List.map_map, Function.comp_def, List.flatten_cons, List.append_nil]
  have : (fun x : Argv.Triple => g (Argv.Triple.toBound x)) = fun t => fw t.1 t.2.2 := by
    funext t; rfl
  rw [this, flatten_live T hsafe]

end PydraModel.Template
