import PydraModel.Template.ArgvBridge
import PydraModel.Template.ArgvView
/-
C25, argv clause — bridge, part 2: the words of one template-shaped field and the whole argument vector.
-/
namespace PydraModel.Template
open PydraModel

def preWords (s : Str) : List Str := if s = [] then [] else [s]

/-- the words a template-shaped field contributes: its option (if any) and its value(s) -/
def fieldWords (f : Argv.Field) (s : Str) (v : Argv.Value) : List Str :=
  if f.isBool then
    (match v with
     | .one (.bool true) => [s]
     | _ => [])
  else
    match v with
    | .unset => []
    | .one x => preWords s ++ [x.render]
    | .many xs =>
      if f.isMulti then xs.flatMap (fun x => preWords s ++ [x.render])   -- the option is repeated per element
      else preWords s ++ xs.map Argv.Scalar.render                        -- a tuple: one group

def fw (f : Argv.Field) (v : Argv.Value) : List Str :=
  match f.argstr with
  | none => []
  | some a => fieldWords f a.raw v

/-- what `parse_command_line_template` produces: a plain option word (or nothing) as argstr, blank separator -/
def Shaped (f : Argv.Field) : Prop :=
  ∃ s, f.argstr = some (toArgstr s) ∧ Argv.PlainStr s ∧ '{' ∉ s ∧ f.sep = [' ']

/-- safe values: a flag gets a bool (or nothing); other fields get non-empty, blank-free, truthy scalars,
    lists of them for `+`/`*` fields, non-empty tuples of them otherwise -/
def SafeFV (f : Argv.Field) (v : Argv.Value) : Prop :=
  if f.isBool then (v = .unset ∨ ∃ b, v = .one (.bool b))
  else match v with
    | .unset => True
    | .one x => Argv.SafeScalar x ∧ x.truthy = true
    | .many xs => (∀ x ∈ xs, Argv.SafeScalar x ∧ x.truthy = true) ∧ (f.isMulti = true ∨ xs ≠ [])

theorem toArgstr_not_templated (s : Str) : (toArgstr s).templated = false := by
  unfold toArgstr Argv.Argstr.templated
  by_cases h : s = [] <;> simp [h]

theorem litText_toArgstr (s : Str) : Argv.litText (toArgstr s).segs = s := by
  unfold toArgstr
  by_cases h : s = [] <;> simp [h, Argv.litText]

theorem words_option (s : Str) (h : Argv.PlainStr s) : Argv.words s = preWords s := by
  unfold preWords
  by_cases hs : s = []
  · subst hs; rfl
  · simp [hs, Argv.words_solid s hs h.solid]

theorem safeSegs_toArgstr (env : Argv.Env) (s : Str) (h : Argv.PlainStr s) : Argv.SafeSegs env (toArgstr s).segs := by
  unfold Argv.SafeSegs toArgstr
  by_cases hs : s = []
  · simp [hs]
  · simp only [hs, if_false, List.mem_singleton]
    intro seg hseg
    subst hseg
    exact h.argStr

theorem words_joined (xs : List Argv.Scalar) (h : ∀ x ∈ xs, Argv.SafeScalar x) :
    Argv.words (Argv.joinWith [' '] (xs.map Argv.Scalar.render)) = xs.map Argv.Scalar.render := by
  induction xs with
  | nil => rfl
  | cons x xs ih =>
    have hx := h x (by simp)
    have ih' := ih (fun y hy => h y (by simp [hy]))
    cases xs with
    | nil => simp [Argv.joinWith, Argv.words_solid _ hx.1 hx.2.solid]
    | cons y ys =>
      simp only [List.map_cons, Argv.joinWith] at ih' ⊢
      rw [List.append_assoc, List.singleton_append, Argv.words_append_ws _ _ ' ' (by decide),
        Argv.words_solid _ hx.1 hx.2.solid, ih']
      rfl

/-- one field: the code's `_command_pos_args` gives exactly `fieldWords` -/
theorem fieldArgs_shaped (env : Argv.Env) (f : Argv.Field) (s : Str) (v : Argv.Value)
    (hs : Argv.PlainStr s) (hb : '{' ∉ s) (hsep : f.sep = [' ']) (hv : SafeFV f v) :
    Argv.fieldArgs env f (toArgstr s) v = .ok (fieldWords f s v) := by
  unfold SafeFV at hv
  by_cases hbool : f.isBool = true
  · simp only [hbool, if_true] at hv
    have hc : (toArgstr s).raw.contains '{' = false := by simp [toArgstr, hb]
    unfold Argv.fieldArgs fieldWords
    simp only [hbool, hc, if_true, Bool.false_eq_true, not_false_eq_true, and_self]
    rcases hv with rfl | ⟨b, rfl⟩
    · rfl
    · cases b <;> rfl
  · have hbool' : f.isBool = false := by simpa using hbool
    simp only [hbool', Bool.false_eq_true, if_false] at hv
    have hsafe : Argv.SafeField env f (toArgstr s) v := by
      refine ⟨?_, ?_, ?_, ?_, ?_⟩
      · rw [toArgstr_not_templated]; simp [toArgstr, hb]
      · rw [hsep]; decide
      · cases v with
        | unset => trivial
        | one x => exact ⟨hv.1, safeSegs_toArgstr _ s hs⟩
        | many xs =>
          exact ⟨fun x hx => ⟨(hv.1 x hx).1, safeSegs_toArgstr _ s hs⟩, hv.2, safeSegs_toArgstr _ s hs⟩
      · intro _
        cases v with
        | unset => trivial
        | one x => exact hv.2
        | many xs => exact fun _ x hx => (hv.1 x hx).2
      · intro hd; simp [toArgstr] at hd
    rw [Argv.fieldArgs_spec env f (toArgstr s) v hsafe]
    unfold Argv.Spec.fieldArgs fieldWords
    simp only [hbool', Bool.false_eq_true, false_and, if_false]
    cases v with
    | unset => rfl
    | one x =>
      simp only [Argv.Spec.scalarArgs, toArgstr_not_templated, Bool.false_eq_true, if_false, litText_toArgstr,
        words_option s hs]
    | many xs =>
      have hd : (toArgstr s).dots = false := rfl
      simp only [Argv.Spec.manyArgs, hd, Bool.false_eq_true, false_or]
      by_cases hm : f.isMulti = true
      · simp only [hm, if_true]
        have : Argv.Spec.scalarArgs env f.name (toArgstr s) = fun x => preWords s ++ [x.render] := by
          funext x
          simp only [Argv.Spec.scalarArgs, toArgstr_not_templated, Bool.false_eq_true, if_false, litText_toArgstr,
            words_option s hs]
        rw [this]
      · simp only [hm, if_false, toArgstr_not_templated, Bool.false_eq_true, litText_toArgstr, words_option s hs, hsep,
          words_joined xs (fun x hx => (hv.1 x hx).1)]

/-- a field that is not part of the command contributes no words -/
theorem fw_not_live (t : Argv.Triple) (hl : t.live = false) (hv : SafeFV t.1 t.2.2) : fw t.1 t.2.2 = [] := by
  unfold fw
  cases ha : t.1.argstr with
  | none => rfl
  | some a =>
    simp only [Argv.Triple.live, Argv.Triple.toBound, Argv.Bound.live, ha, Option.isSome_some, Bool.true_and] at hl
    unfold fieldWords
    unfold SafeFV at hv
    by_cases hb : t.1.isBool = true
    · simp only [hb, if_true] at hv ⊢
      rcases hv with h | ⟨b, h⟩
      · rw [h]
      · rw [h] at hl; simp at hl
    · simp only [hb, if_false] at hv ⊢
      cases hval : t.2.2 with
      | unset => rfl
      | one x => rw [hval] at hl; simp at hl
      | many xs =>
        rw [hval] at hl
        cases xs with
        | nil =>
          simp at hl
          simp [hl]
        | cons x xs => simp at hl

end PydraModel.Template
