import PydraModel.Template.Spec
/-
Helper lemmas for C25, part 1: lists of characters, the hand-written regex matchers on rendered tokens.
-/
namespace PydraModel.Template

/-! ### `takeWhile` / `dropWhile` over an append -/

theorem takeWhile_all {α} (p : α → Bool) (l : List α) (h : ∀ x ∈ l, p x = true) : l.takeWhile p = l := by
  induction l with
  | nil => rfl
  | cons a l ih => simp [List.takeWhile, h a (by simp), ih (fun x hx => h x (by simp [hx]))]

theorem dropWhile_all {α} (p : α → Bool) (l : List α) (h : ∀ x ∈ l, p x = true) : l.dropWhile p = [] := by
  induction l with
  | nil => rfl
  | cons a l ih => simp [List.dropWhile, h a (by simp), ih (fun x hx => h x (by simp [hx]))]

theorem takeWhile_append_stop {α} (p : α → Bool) (l : List α) (c : α) (r : List α)
    (h : ∀ x ∈ l, p x = true) (hc : p c = false) : (l ++ c :: r).takeWhile p = l := by
  induction l with
  | nil => simp [hc]
  | cons a l ih => simp [h a (by simp), ih (fun x hx => h x (by simp [hx]))]

theorem dropWhile_append_stop {α} (p : α → Bool) (l : List α) (c : α) (r : List α)
    (h : ∀ x ∈ l, p x = true) (hc : p c = false) : (l ++ c :: r).dropWhile p = c :: r := by
  induction l with
  | nil => simp [hc]
  | cons a l ih => simp [h a (by simp), ih (fun x hx => h x (by simp [hx]))]

theorem all_iff {α} (p : α → Bool) (l : List α) : l.all p = true ↔ ∀ x ∈ l, p x = true := by
  simp [List.all_eq_true]

/-! ### character classes -/

theorem ident_arg {c : Char} (h : isIdentChar c = true) : isArgChar c = true := by
  simp only [isIdentChar, Bool.or_eq_true, beq_iff_eq] at h
  simp only [isArgChar, Bool.or_eq_true, beq_iff_eq]
  rcases h with h | h
  · simp [h]
  · simp [h]

theorem type_arg {c : Char} (h : isTypeChar c = true) : isArgChar c = true := by
  simp only [isTypeChar, Bool.or_eq_true, beq_iff_eq] at h
  simp only [isArgChar, Bool.or_eq_true, beq_iff_eq]
  rcases h with ((((h | h) | h) | h) | h) | h <;> simp [h]

theorem ident_opt {c : Char} (h : isIdentChar c = true) : isOptChar c = true := by
  simp only [isIdentChar, Bool.or_eq_true, beq_iff_eq] at h
  simp only [isOptChar, Bool.or_eq_true, beq_iff_eq]
  rcases h with h | h <;> simp [h]

/-- the characters that can follow the class run in `arg_pattern` are not in the class -/
theorem not_arg_gt : isArgChar '>' = false := by decide
theorem not_arg_q : isArgChar '?' = false := by decide
theorem not_arg_eq : isArgChar '=' = false := by decide
theorem not_arg_dollar : isArgChar '$' = false := by decide
theorem not_opt_lt : isOptChar '<' = false := by decide
theorem not_ident_bar : isIdentChar '|' = false := by decide

/-! ### `matchArg` on a well-formed `<run tail>` -/

/-- what may follow the class run inside `<…>` -/
inductive TailShape : Str → Prop
  | none : TailShape []
  | q : TailShape ['?']
  | eq (s : Str) : s ≠ [] → '>' ∉ s → TailShape ('=' :: s)
  | dollar (s : Str) : s ≠ [] → '>' ∉ s → TailShape ('$' :: s)

theorem ne_gt_of_not_mem {s : Str} (h : '>' ∉ s) : ∀ x ∈ s, (x != '>') = true := by
  intro x hx
  simp only [bne_iff_ne, ne_eq]
  intro e; subst e; exact h hx

theorem matchArg_ok (run tail rest : Str) (hne : run ≠ []) (hrun : ∀ c ∈ run, isArgChar c = true)
    (ht : TailShape tail) : matchArg ('<' :: (run ++ tail ++ '>' :: rest)) = some (run ++ tail) := by
  cases ht with
  | none =>
    have h1 : (run ++ [] ++ '>' :: rest).takeWhile isArgChar = run := by
      simpa using takeWhile_append_stop isArgChar run '>' rest hrun not_arg_gt
    have h2 : (run ++ [] ++ '>' :: rest).dropWhile isArgChar = '>' :: rest := by
      simpa using dropWhile_append_stop isArgChar run '>' rest hrun not_arg_gt
    simp only [matchArg, h1, h2, hne, if_false]
    simp
  | q =>
    have h1 : (run ++ ['?'] ++ '>' :: rest).takeWhile isArgChar = run := by
      simpa using takeWhile_append_stop isArgChar run '?' ('>' :: rest) hrun not_arg_q
    have h2 : (run ++ ['?'] ++ '>' :: rest).dropWhile isArgChar = '?' :: '>' :: rest := by
      simpa using dropWhile_append_stop isArgChar run '?' ('>' :: rest) hrun not_arg_q
    simp only [matchArg, h1, h2, hne, if_false]
  | eq s hs hgt =>
    have h1 : (run ++ '=' :: s ++ '>' :: rest).takeWhile isArgChar = run := by
      simpa using takeWhile_append_stop isArgChar run '=' (s ++ '>' :: rest) hrun not_arg_eq
    have h2 : (run ++ '=' :: s ++ '>' :: rest).dropWhile isArgChar = '=' :: (s ++ '>' :: rest) := by
      simpa using dropWhile_append_stop isArgChar run '=' (s ++ '>' :: rest) hrun not_arg_eq
    have h3 : (s ++ '>' :: rest).takeWhile (· != '>') = s :=
      takeWhile_append_stop _ s '>' rest (ne_gt_of_not_mem hgt) (by decide)
    have h4 : (s ++ '>' :: rest).dropWhile (· != '>') = '>' :: rest :=
      dropWhile_append_stop _ s '>' rest (ne_gt_of_not_mem hgt) (by decide)
    simp only [matchArg, h1, h2, hne, if_false]
    simp [h3, h4, hs]
  | dollar s hs hgt =>
    have h1 : (run ++ '$' :: s ++ '>' :: rest).takeWhile isArgChar = run := by
      simpa using takeWhile_append_stop isArgChar run '$' (s ++ '>' :: rest) hrun not_arg_dollar
    have h2 : (run ++ '$' :: s ++ '>' :: rest).dropWhile isArgChar = '$' :: (s ++ '>' :: rest) := by
      simpa using dropWhile_append_stop isArgChar run '$' (s ++ '>' :: rest) hrun not_arg_dollar
    have h3 : (s ++ '>' :: rest).takeWhile (· != '>') = s :=
      takeWhile_append_stop _ s '>' rest (ne_gt_of_not_mem hgt) (by decide)
    have h4 : (s ++ '>' :: rest).dropWhile (· != '>') = '>' :: rest :=
      dropWhile_append_stop _ s '>' rest (ne_gt_of_not_mem hgt) (by decide)
    simp only [matchArg, h1, h2, hne, if_false]
    simp [h3, h4, hs]

/-! ### the class run and the tail of a rendered body -/

/-- the part of a body made of class characters -/
def bodyRun (r : Role) (a : ArgSpec) : Str :=
  rolePrefix r ++ (a.name ++ (typesPart a.types ++
    (match a.mod with | .plus => ['+'] | .star => ['*'] | _ => [])))

def bodyTail (a : ArgSpec) : Str :=
  match a.mod with
  | .optional => ['?']
  | .dflt s => '=' :: s
  | .tmpl t => '$' :: t
  | _ => []

theorem argBody_split (r : Role) (a : ArgSpec) : argBody r a = bodyRun r a ++ bodyTail a := by
  unfold argBody bodyRun bodyTail modSuffix
  cases a.mod <;> simp

theorem rolePrefix_arg (r : Role) : ∀ c ∈ rolePrefix r, isArgChar c = true := by
  cases r <;> decide

theorem bodyRun_arg (r : Role) (a : ArgSpec) (h : argOK a = true) : ∀ c ∈ bodyRun r a, isArgChar c = true := by
  simp only [argOK, nameOK, Bool.and_eq_true] at h
  obtain ⟨⟨⟨_, hn⟩, ht⟩, _⟩ := h
  intro c hc
  simp only [bodyRun, List.mem_append] at hc
  rcases hc with hc | hc | hc | hc
  · exact rolePrefix_arg r c hc
  · exact ident_arg ((all_iff _ _).mp hn c hc)
  · cases hty : a.types with
    | none => simp [hty, typesPart] at hc
    | some ts =>
      simp only [hty, typesPart, List.mem_cons] at hc
      rcases hc with rfl | hc
      · decide
      · simp only [hty] at ht
        exact type_arg ((all_iff _ _).mp ht c hc)
  · cases hm : a.mod <;> simp [hm] at hc <;> subst hc <;> decide

theorem bodyRun_ne_nil (r : Role) (a : ArgSpec) (h : argOK a = true) : bodyRun r a ≠ [] := by
  simp only [argOK, nameOK, Bool.and_eq_true, bne_iff_ne, ne_eq] at h
  obtain ⟨⟨⟨hn, _⟩, _⟩, _⟩ := h
  unfold bodyRun
  intro e
  simp at e
  exact hn e.2.1

theorem tailText_shape {s : Str} (h : tailTextOK s = true) : s ≠ [] ∧ '>' ∉ s ∧ '=' ∉ s := by
  simp only [tailTextOK, Bool.and_eq_true, bne_iff_ne, ne_eq, Bool.not_eq_true', List.contains_eq_mem,
    decide_eq_false_iff_not] at h
  exact ⟨h.1.1.1, h.1.1.2, h.1.2⟩

theorem bodyTail_shape (a : ArgSpec) (h : argOK a = true) : TailShape (bodyTail a) := by
  simp only [argOK, Bool.and_eq_true] at h
  obtain ⟨_, hm⟩ := h
  unfold bodyTail
  cases hmod : a.mod with
  | plain => exact .none
  | optional => exact .q
  | plus => exact .none
  | star => exact .none
  | dflt s =>
    simp only [hmod, modOK] at hm
    obtain ⟨h1, h2, _⟩ := tailText_shape hm
    exact .eq s h1 h2
  | tmpl t =>
    simp only [hmod, modOK, Bool.and_eq_true] at hm
    obtain ⟨h1, h2, _⟩ := tailText_shape hm.1
    exact .dollar t h1 h2

/-- the lexer reads a rendered `<…>` token back as the body that was written -/
theorem matchArg_render (r : Role) (a : ArgSpec) (h : argOK a = true) (rest : Str) :
    matchArg ('<' :: (argBody r a ++ '>' :: rest)) = some (argBody r a) := by
  rw [argBody_split]
  exact matchArg_ok _ _ rest (bodyRun_ne_nil r a h) (bodyRun_arg r a h) (bodyTail_shape a h)

theorem lex_render_arg (r : Role) (a : ArgSpec) (h : argOK a = true) :
    lex ('<' :: (argBody r a ++ ['>'])) = .arg (argBody r a) := by
  unfold lex
  rw [matchArg_render r a h []]

/-! ### options and flags -/

theorem matchArg_of_dash (r : Str) : matchArg ('-' :: r) = none := by
  simp [matchArg]

theorem optOK_shape {o : Str} (h : optOK o = true) :
    ∃ run, o = '-' :: run ∧ run ≠ [] ∧ ∀ c ∈ run, isOptChar c = true := by
  unfold optOK at h
  split at h
  · rename_i r
    simp only [Bool.and_eq_true, bne_iff_ne, ne_eq] at h
    exact ⟨r, rfl, h.1, (all_iff _ _).mp h.2⟩
  · simp at h

theorem lex_option {o : Str} (h : optOK o = true) : lex o = .opt := by
  obtain ⟨run, rfl, hne, hrun⟩ := optOK_shape h
  unfold lex
  rw [matchArg_of_dash]
  simp only [matchOpt, takeWhile_all isOptChar run hrun, dropWhile_all isOptChar run hrun, hne, if_false]
  simp [matchArg]

theorem flagBody_shape (n : Str) (d : Option Str) (_hn : nameOK n = true)
    (hd : (match d with | none => true | some s => s != [] && !s.contains '>' && !s.contains '=') = true) :
    ∃ tail, flagBody n d = n ++ tail ∧ TailShape tail := by
  cases d with
  | none => exact ⟨[], by simp [flagBody], .none⟩
  | some s =>
    simp only [Bool.and_eq_true, bne_iff_ne, ne_eq, Bool.not_eq_true', List.contains_eq_mem,
      decide_eq_false_iff_not] at hd
    exact ⟨'=' :: s, by simp [flagBody], .eq s hd.1.1 hd.1.2⟩

theorem lex_render_flag (o n : Str) (d : Option Str) (h : tokOK (.flag o n d) = true) :
    lex (o ++ '<' :: (flagBody n d ++ ['>'])) = .flag o (flagBody n d) := by
  simp only [tokOK, Bool.and_eq_true] at h
  obtain ⟨⟨ho, hn⟩, hd⟩ := h
  obtain ⟨run, rfl, hne, hrun⟩ := optOK_shape ho
  obtain ⟨tail, htail, hshape⟩ := flagBody_shape n d hn hd
  have hn' : n ≠ [] ∧ ∀ c ∈ n, isArgChar c = true := by
    simp only [nameOK, Bool.and_eq_true, bne_iff_ne, ne_eq] at hn
    exact ⟨hn.1, fun c hc => ident_arg ((all_iff _ _).mp hn.2 c hc)⟩
  unfold lex
  rw [List.cons_append, matchArg_of_dash]
  have h1 : (run ++ '<' :: (flagBody n d ++ ['>'])).takeWhile isOptChar = run :=
    takeWhile_append_stop isOptChar run '<' _ hrun not_opt_lt
  have h2 : (run ++ '<' :: (flagBody n d ++ ['>'])).dropWhile isOptChar = '<' :: (flagBody n d ++ ['>']) :=
    dropWhile_append_stop isOptChar run '<' _ hrun not_opt_lt
  simp only [matchOpt, h1, h2, hne, if_false]
  have h3 : matchArg ('<' :: (flagBody n d ++ ['>'])) = some (flagBody n d) := by
    rw [htail]
    have := matchArg_ok n tail [] hn'.1 hn'.2 hshape
    simpa using this
  rw [h3]

end PydraModel.Template
