import PydraModel.Basic
/-
Engine `Template` (DESIGN §5.7, property C25): command-line templates of `shell.define("cmd <in:type> --opt <x?> <out|name> …")`.

Mirrors `parse_command_line_template` and the template path of `define` in pydra/compose/shell/builder.py as they are at
the pinned commit: the executable prefix, the three regex matches tried in order (`arg_re`, `bool_arg_re`, `opt_re`, all
with `re.match`, i.e. anchored at the start only), the string surgery on the captured group (`out|` / `modify|` prefixes,
`?` `+` `*` suffixes, `=default`, `$template`, `:type`), `from_type_str`, `add_arg`, and the final position assignment
through `remaining_positions`.

Not modelled (answered with `.error (.unmodelled …)`; the generator stays clear of them): user-supplied `inputs=` /
`outputs=` dictionaries, a field name used twice, defaults on output fields, `eval` of anything but a literal
(int, decimal float, True/False/None, flat tuples of those and quoted strings), string defaults for file types,
type atoms that are not in the format table handed to the model.
Strings are `List Char`.
-/
namespace PydraModel.Template

abbrev Str := List Char

instance {ε α} [DecidableEq ε] [DecidableEq α] : DecidableEq (Except ε α) := fun a b =>
  match a, b with
  | .ok x, .ok y => if h : x = y then isTrue (by rw [h]) else isFalse (fun e => h (by cases e; rfl))
  | .error x, .error y => if h : x = y then isTrue (by rw [h]) else isFalse (fun e => h (by cases e; rfl))
  | .ok _, .error _ => isFalse (fun e => by cases e)
  | .error _, .ok _ => isFalse (fun e => by cases e)

/-! ### the regex sources the matchers below were written for (compared with `Gen.TemplateRegexes` by `decide`) -/

def argPatternSrc : Str := "<([:a-zA-Z0-9_,\\|\\-\\.\\/\\+\\*]+(?:\\?|(?:=|\\$)[^>]+)?)>".toList
def optPatternSrc : Str := "--?[a-zA-Z0-9_\\-]+".toList
def boolArgPatternSrc : Str := '(' :: optPatternSrc ++ ')' :: argPatternSrc
def quotedDefaultPatternSrc : Str := "('|\\\").*\\1".toList
def matchChainSrc : List String := ["arg_re.match", "bool_arg_re.match", "opt_re.match"]

/-! ### errors -/

inductive Err
  | noExecutable          -- ValueError  "Found no executable in command line template"
  | unknownToken          -- ValueError  "Found unknown token"
  | optionWithoutField    -- ValueError  "Found an option without a field"
  | templateOnInput       -- ValueError  "Path templates can only be used with output fields"
  | unpack                -- ValueError  "too many values to unpack" (`name.split(..)` into two names)
  | unknownType           -- TypeError   "Found unknown type"
  | unknownMime           -- FormatRecognitionError from `from_mime` on an atom with '/'
  | assertion             -- AssertionError (`?` after `=`)
  | nameError             -- NameError from `eval(default)` of a bare word
  | syntaxError           -- SyntaxError from `eval(default)`
  | badDefault            -- TypeError: the default is not of the field's type
  | reserved              -- ValueError at class construction (`executable`, RESERVED_FIELD_NAMES)
  | badIdentifier         -- SyntaxError in attrs' generated code (keyword or non-identifier field name)
  | unmodelled (why : String)
  deriving DecidableEq, Repr

/-! ### fields -/

inductive Kind | arg | outarg | out
  deriving DecidableEq, Repr

inductive Atom
  | builtin (n : Str)       -- int float str bool
  | fmt (mime : Str)        -- a fileformats class, by its canonical mime-like name
  deriving DecidableEq, Repr

inductive BaseTy
  | single (a : Atom)
  | tuple (as : List Atom)
  | vartuple (a : Atom)     -- tuple[a, ...]
  deriving DecidableEq, Repr

structure Ty where
  base : BaseTy
  multi : Bool              -- MultiInputObj[…]
  optional : Bool           -- … | None
  deriving DecidableEq, Repr

inductive SLit
  | int (i : Int)
  | float (m : Int) (k : Nat)     -- m / 10^k
  | bool (b : Bool)
  | str (s : Str)
  | none
  deriving DecidableEq, Repr

inductive Lit
  | sc (s : SLit)
  | tuple (xs : List SLit)
  deriving DecidableEq, Repr

inductive Default
  | noDefault
  | emptyList               -- attrs.Factory(list)
  | lit (l : Lit)
  deriving DecidableEq, Repr

structure Field where
  name : Str
  kind : Kind
  ty : Ty
  argstr : Option Str               -- `none` for `out` fields
  position : Option Nat
  default : Default
  pathTemplate : Option Str
  modify : Bool                     -- copy_mode = copy
  passthrough : Bool                -- callable = _InputPassThrough(name)
  deriving DecidableEq, Repr

structure Def where
  exe : List Str
  fields : List Field               -- in creation order
  deriving DecidableEq, Repr

/-- atom → `none` (fileformats does not know it) | `some (canonical mime-like, ext, is a FileSet)` -/
abbrev FmtTable := List (Str × Option (Str × Option Str × Bool))

/-! ### the three regexes -/

def isIdentChar (c : Char) : Bool := c.isAlphanum || c == '_'

/-- `[:a-zA-Z0-9_,\|\-\.\/\+\*]` -/
def isArgChar (c : Char) : Bool :=
  c.isAlphanum || c == ':' || c == '_' || c == ',' || c == '|' || c == '-' || c == '.' || c == '/' || c == '+' || c == '*'

/-- `[a-zA-Z0-9_\-]` -/
def isOptChar (c : Char) : Bool := c.isAlphanum || c == '_' || c == '-'

/-- `re.match(arg_pattern, s)`: group 1, if the pattern matches at the start of `s`.
    The greedy run cannot usefully give characters back (`?`, `=`, `$`, `>` are not in the class), so this is exact. -/
def matchArg (s : Str) : Option Str :=
  match s with
  | '<' :: r =>
    let run := r.takeWhile isArgChar
    if run = [] then none else
    match r.dropWhile isArgChar with
    | '>' :: _ => some run
    | '?' :: '>' :: _ => some (run ++ ['?'])
    | c :: rest =>
      if c = '=' ∨ c = '$' then
        let body := rest.takeWhile (· != '>')
        match rest.dropWhile (· != '>') with
        | '>' :: _ => if body = [] then none else some (run ++ c :: body)
        | _ => none
      else none
    | [] => none
  | _ => none

/-- `re.match(opt_pattern, s)`: (matched text, rest).  `-` is itself in the class, so `--?` adds nothing:
    the match is `-` followed by the maximal non-empty run of class characters. -/
def matchOpt (s : Str) : Option (Str × Str) :=
  match s with
  | '-' :: r =>
    let run := r.takeWhile isOptChar
    if run = [] then none else some ('-' :: run, r.dropWhile isOptChar)
  | _ => none

inductive Lexed
  | arg (body : Str)                 -- arg_re.match(token).group(1)
  | flag (opt : Str) (body : Str)    -- bool_arg_re.match(token).groups()
  | opt                              -- opt_re.match(token): the whole token becomes the pending option
  | unknown
  deriving DecidableEq, Repr

/-- the `if arg_re.match … elif bool_arg_re.match … elif opt_re.match … else raise` chain -/
def lex (tok : Str) : Lexed :=
  match matchArg tok with
  | some b => .arg b
  | none =>
    match matchOpt tok with
    | none => .unknown
    | some (o, rest) =>
      match matchArg rest with
      | some b => .flag o b
      | none => .opt

/-! ### small string operations -/

/-- `a, b = s.split(c)` when `c in s`: exactly one occurrence, else "too many values to unpack" -/
def splitTwo (c : Char) (s : Str) : Except Err (Str × Str) :=
  let a := s.takeWhile (· != c)
  let b := (s.dropWhile (· != c)).drop 1
  if b.contains c then .error .unpack else .ok (a, b)

def digitsToNat (s : Str) : Nat := s.foldl (fun acc c => acc * 10 + (c.toNat - '0'.toNat)) 0

def isDigits (s : Str) : Bool := s != [] && s.all Char.isDigit

/-! ### `eval(default)` for literals -/

/-- unsigned number: `digits` or `digits.digits` -/
def evalNumber (neg : Bool) (s : Str) : Option SLit :=
  let ip := s.takeWhile Char.isDigit
  let rest := s.dropWhile Char.isDigit
  let sign : Int := if neg then -1 else 1
  if ip = [] then none else
  match rest with
  | [] => if ip.length > 1 ∧ ip.head? = some '0' ∧ !ip.all (· == '0') then none else some (.int (sign * digitsToNat ip))
  | '.' :: fp => if isDigits fp then some (.float (sign * digitsToNat (ip ++ fp)) fp.length) else none
  | _ => none

def isIdentifier (s : Str) : Bool :=
  match s with
  | [] => false
  | c :: _ => s.all isIdentChar && !c.isDigit

/-- a scalar literal without quotes -/
def evalScalar (s : Str) : Except Err SLit :=
  if s = "True".toList then .ok (.bool true)
  else if s = "False".toList then .ok (.bool false)
  else if s = "None".toList then .ok .none
  else
    let r := match s with
      | '-' :: t => evalNumber true t
      | _ => evalNumber false s
    match r with
    | some v => .ok v
    | none => if isIdentifier s then .error .nameError else .error (.unmodelled "eval")

/-- `re.match(r"('|\").*\1", s)` -/
def isQuoted (s : Str) : Bool :=
  match s with
  | q :: r => (q == '\'' || q == '"') && r.contains q
  | [] => false

/-- an element of a tuple literal -/
def evalElem (s : Str) : Except Err SLit :=
  match s with
  | q :: r =>
    if (q == '\'' || q == '"') then
      if r.getLast? = some q ∧ !(r.dropLast.contains q) ∧ !(r.contains '\\') then .ok (.str r.dropLast)
      else .error (.unmodelled "eval")
    else evalScalar s
  | [] => .error (.unmodelled "eval")

/-- `eval(src)` for the literal subset -/
def evalLit (src : Str) : Except Err Lit :=
  match src with
  | '(' :: r =>
    if r.getLast? = some ')' then
      let inner := r.dropLast
      let pieces := splitOnChar ',' inner
      let pieces := if pieces.length ≥ 2 ∧ pieces.getLast? = some [] then pieces.dropLast else pieces
      if inner.contains '(' ∨ inner.contains ')' ∨ pieces.length < 2 ∧ !(inner.getLast? = some ',') then .error (.unmodelled "eval")
      else (pieces.mapM evalElem).map .tuple
    else .error (.unmodelled "eval")
  | _ => (evalScalar src).map .sc

/-- the `=default` value: `default[1:-1]` when it looks quoted, `eval(default)` otherwise -/
def defaultValue (src : Str) : Except Err Lit :=
  if isQuoted src then .ok (.sc (.str (src.drop 1).dropLast)) else evalLit src

/-! ### default coercion (TypeParser on the default of a field) -/

def coerceAtom (a : Atom) (v : SLit) : Except Err SLit :=
  match a, v with
  | .builtin n, v =>
    if n = "int".toList then
      match v with
      | .int i => .ok (.int i)
      | .bool b => .ok (.bool b)
      | _ => .error .badDefault
    else if n = "float".toList then
      match v with
      | .float m k => .ok (.float m k)
      | .int i => .ok (.float i 0)
      | .bool b => .ok (.float (if b then 1 else 0) 0)
      | _ => .error .badDefault
    else if n = "str".toList then
      match v with
      | .str s => .ok (.str s)
      | _ => .error .badDefault
    else if n = "bool".toList then
      match v with
      | .bool b => .ok (.bool b)
      | _ => .error .badDefault
    else .error (.unmodelled "builtin")
  | .fmt _, .str _ => .error (.unmodelled "path-default")
  | .fmt _, _ => .error .badDefault

def coerceAtoms : List Atom → List SLit → Except Err (List SLit)
  | [], [] => .ok []
  | a :: as, v :: vs => do
    let x ← coerceAtom a v
    let xs ← coerceAtoms as vs
    pure (x :: xs)
  | _, _ => .error .badDefault

def coerceDefault (t : Ty) (l : Lit) : Except Err Lit :=
  if t.multi then .error (.unmodelled "multi-default") else
  match l with
  | .sc .none => if t.optional then .ok (.sc .none) else .error .badDefault
  | .sc v =>
    match t.base with
    | .single a => (coerceAtom a v).map .sc
    | _ => .error .badDefault
  | .tuple vs =>
    match t.base with
    | .tuple as => (coerceAtoms as vs).map .tuple
    | .vartuple a => (vs.mapM (coerceAtom a)).map .tuple
    | .single _ => .error .badDefault

/-! ### `from_type_str` -/

def builtinNames : List Str := ["int".toList, "float".toList, "str".toList, "bool".toList]

def lookupFmt (tbl : FmtTable) (atom : Str) : Option (Option (Str × Option Str × Bool)) :=
  (tbl.find? (fun e => e.1 == atom)).map (·.2)

/-- one comma-separated piece: `none` = the ellipsis -/
def atomOfStr (tbl : FmtTable) (tp : Str) : Except Err (Option Atom) :=
  if tp.contains '/' then
    match lookupFmt tbl tp with
    | none => .error (.unmodelled "format-not-in-table")
    | some none => .error .unknownMime
    | some (some (mime, _, _)) => .ok (some (.fmt mime))
  else if tp = "...".toList then .ok none
  else if builtinNames.contains tp then .ok (some (.builtin tp))
  else
    match lookupFmt tbl tp with
    | none => .error (.unmodelled "format-not-in-table")
    | some none => .error .unknownType
    | some (some (mime, _, _)) => .ok (some (.fmt mime))

def baseOfAtoms : List (Option Atom) → Except Err BaseTy
  | [some a] => .ok (.single a)
  | [some a, none] => .ok (.vartuple a)
  | as =>
    if as.length > 1 ∧ as.all Option.isSome then .ok (.tuple (as.filterMap id))
    else .error (.unmodelled "ellipsis")

def typeOfStr (tbl : FmtTable) (s : Str) : Except Err BaseTy := do
  let as ← (splitOnChar ',' s).mapM (atomOfStr tbl)
  baseOfAtoms as

/-- extension appended to the default path template: `is_fileset_or_union(type_)` and `ext_type.ext` -/
def extOf (tbl : FmtTable) (t : Ty) : Option Str :=
  if t.multi then none else
  match t.base with
  | .single (.fmt mime) =>
    match tbl.find? (fun e => match e.2 with | some (m, _, _) => m == mime | none => false) with
    | some (_, some (_, ext, true)) => ext
    | _ => none
  | _ => none

def fsObject : Atom := .fmt "generic/fs-object".toList

/-! ### one `<…>` token -/

inductive Modifier
  | plain
  | optional
  | plus
  | star
  | dflt (v : Lit)
  | tmpl (t : Str)
  deriving DecidableEq, Repr

/-- the suffix/`=`/`$` chain of the `arg_re` branch: (remaining name, modifier) -/
def splitModifier (isOut : Bool) (name : Str) : Except Err (Str × Modifier) :=
  if name.getLast? = some '?' then
    if name.contains '=' then .error .assertion else .ok (name.dropLast, .optional)
  else if name.getLast? = some '+' then .ok (name.dropLast, .plus)
  else if name.getLast? = some '*' then .ok (name.dropLast, .star)
  else if name.contains '=' then do
    let (n, src) ← splitTwo '=' name
    let v ← defaultValue src
    pure (n, .dflt v)
  else if name.contains '$' then do
    let (n, t) ← splitTwo '$' name
    if isOut then pure (n, .tmpl t) else .error .templateOnInput
  else .ok (name, .plain)

def mkField (name : Str) (kind : Kind) (ty : Ty) (argstr : Option Str) (default : Default) (pt : Option Str)
    (modify passthrough : Bool) : Field :=
  { name := name, kind := kind, ty := ty, argstr := argstr, position := none, default := default,
    pathTemplate := pt, modify := modify, passthrough := passthrough }

/-- `name.startswith("out|")` / `name.startswith("modify|")`: (is output, is modify, remaining text) -/
def stripRole (body : Str) : Bool × Bool × Str :=
  match body with
  | 'o' :: 'u' :: 't' :: '|' :: r => (true, false, r)
  | 'm' :: 'o' :: 'd' :: 'i' :: 'f' :: 'y' :: '|' :: r => (false, true, r)
  | _ => (false, false, body)

/-- `if ":" in name: name, type_str = name.split(":")` … `else: FsObject if option is None else str` -/
def splitType (tbl : FmtTable) (option : Option Str) (name : Str) : Except Err (Str × BaseTy) :=
  if name.contains ':' then do
    let (n, ts) ← splitTwo ':' name
    let b ← typeOfStr tbl ts
    pure (n, b)
  else pure (name, BaseTy.single (if option.isNone then fsObject else .builtin "str".toList))

/-- from `if is_multi:` to the `add_arg` calls: the fields of the token, in the order they are added -/
def buildFields (tbl : FmtTable) (option : Option Str) (isOut modify : Bool) (name : Str) (base : BaseTy)
    (mod : Modifier) : Except Err (List Field) := do
  let multi := mod == .plus || mod == .star
  let ty : Ty := { base := base, multi := multi, optional := mod == .optional }
  let default : Default ←
    match mod with
    | .optional => pure (Default.lit (.sc .none))
    | .star => pure Default.emptyList
    | .dflt v =>
      if isOut then .error (.unmodelled "outarg-default") else (coerceDefault ty v).map Default.lit
    | _ => pure Default.noDefault
  let pt : Option Str :=
    if isOut then
      match mod with
      | .tmpl t => some t
      | _ => some (name ++ (extOf tbl ty).getD [])
    else none
  let main := mkField name (if isOut then .outarg else .arg) ty (some (option.getD [])) default pt modify false
  if modify then
    pure [mkField name .out ty none .noDefault none false true, main]
  else pure [main]

/-- the body of the `if match := arg_re.match(token)` branch: the fields it adds, in the order of the `add_arg` calls -/
def parseArgBody (tbl : FmtTable) (option : Option Str) (body : Str) : Except Err (List Field) := do
  let (isOut, modify, rest) := stripRole body
  let (name, mod) ← splitModifier isOut rest
  let (name, base) ← splitType tbl option name
  buildFields tbl option isOut modify name base mod

/-- the body of the `elif match := bool_arg_re.match(token)` branch -/
def parseFlagBody (opt var : Str) : Except Err Field := do
  let (name, dflt) ←
    if var.contains '=' then do
      let (n, src) ← splitTwo '=' var
      let v ← evalLit src
      pure (n, v)
    else pure (var, Lit.sc (.bool false))
  let ty : Ty := { base := .single (.builtin "bool".toList), multi := false, optional := false }
  let d ← coerceDefault ty dflt
  pure (mkField name .arg ty (some opt) (.lit d) none false false)

/-! ### the token loop -/

structure PState where
  fields : List Field
  option : Option Str
  deriving DecidableEq, Repr

def sameDict (a b : Kind) : Bool := (a == .arg) == (b == .arg)

/-- `add_arg` when no field of that name is in the dictionary yet (a second field of the same name is merged
    into the first by the code: not modelled) -/
def addField (fs : List Field) (f : Field) : Except Err (List Field) :=
  if fs.any (fun g => g.name == f.name && sameDict g.kind f.kind) then .error (.unmodelled "duplicate-name")
  else .ok (fs ++ [f])

def addFields : List Field → List Field → Except Err (List Field)
  | fs, [] => .ok fs
  | fs, f :: rest => do
    let fs' ← addField fs f
    addFields fs' rest

def step (tbl : FmtTable) (st : PState) (tok : Str) : Except Err PState :=
  match lex tok with
  | .arg body => do
    let new ← parseArgBody tbl st.option body
    let fs ← addFields st.fields new
    pure { fields := fs, option := none }
  | .flag o body => do
    let f ← parseFlagBody o body
    let fs ← addField st.fields f
    pure { fields := fs, option := none }
  | .opt => .ok { st with option := some tok }
  | .unknown => .error .unknownToken

def steps (tbl : FmtTable) : PState → List Str → Except Err PState
  | st, [] => .ok st
  | st, t :: ts => do
    let st' ← step tbl st t
    steps tbl st' ts

/-! ### positions: `remaining_positions(arguments, len(arguments) + 1, 1)` and the assignment loop -/

def isArgument (f : Field) : Bool := f.kind != .out

def remainingPositions (taken : List Nat) (numArgs start : Nat) : List Nat :=
  (List.range' start (numArgs - start)).filter (fun i => !taken.contains i)

def assign : List Field → List Nat → List Field
  | [], _ => []
  | f :: fs, ps =>
    if !isArgument f then f :: assign fs ps
    else match f.position, ps with
      | none, p :: ps' => { f with position := some p } :: assign fs ps'
      | _, _ => f :: assign fs ps

def assignPositions (fs : List Field) : List Field :=
  let args := fs.filter isArgument
  assign fs (remainingPositions (args.filterMap (·.position)) (args.length + 1) 1)

/-! ### `parse_command_line_template` -/

def startsArgs (t : Str) : Bool :=
  match t with
  | '<' :: _ => true
  | '-' :: _ => true
  | _ => false

def parseTemplate (tbl : FmtTable) (tokens : List Str) : Except Err Def :=
  let exe := tokens.takeWhile (fun t => !startsArgs t)
  let rest := tokens.dropWhile (fun t => !startsArgs t)
  if exe = [] then .error .noExecutable else
  match steps tbl { fields := [], option := none } rest with
  | .error e => .error e
  | .ok st =>
    if st.option.isSome then .error .optionWithoutField
    else .ok { exe := exe, fields := assignPositions st.fields }

/-! ### the template path of `define`: checks on the field names when the class is built -/

def baseAttrs : List Str := ["append_args".toList, "stdout".toList, "stderr".toList, "return_code".toList]

def defineCheck (keywords reserved : List Str) (d : Def) : Except Err Def :=
  let inputs := d.fields.filter (·.kind == .arg)
  let outargs := d.fields.filter (·.kind == .outarg)
  if inputs.any (·.name == "executable".toList) then .error .reserved
  else if outargs.any (fun o => o.name == "executable".toList || inputs.any (·.name == o.name)) then .error (.unmodelled "outarg-overrides-input")
  else if d.fields.any (fun f => baseAttrs.contains f.name) then .error (.unmodelled "base-attribute-name")
  else if (inputs ++ outargs).any (fun f => reserved.contains f.name) then .error .reserved
  else if d.fields.any (fun f => !isIdentifier f.name || keywords.contains f.name) then .error .badIdentifier
  else .ok d

def define (tbl : FmtTable) (keywords reserved : List Str) (tokens : List Str) : Except Err Def :=
  match parseTemplate tbl tokens with
  | .error e => .error e
  | .ok d => defineCheck keywords reserved d

/-! ### argv of a defined task for safe values (the part of `_command_args` templates can reach) -/

inductive ArgVal
  | atom (s : Str)            -- str / int / float / path, already rendered; non-empty, no white space or quotes
  | bool (b : Bool)
  | seq (xs : List Str)       -- a tuple (one argument group)
  | many (xs : List ArgVal)   -- MultiInputObj
  | template                  -- outarg left at its default `True`
  | unset
  deriving Repr

/-- `repr(float)` / `str(float)` of the decimal `m / 10^k` (short literals: no exponent form) -/
def decRepr (m : Int) (k : Nat) : Str :=
  let a := m.natAbs
  let fpRaw := (Nat.repr (a % 10 ^ k)).toList
  let fp := ((List.replicate (k - fpRaw.length) '0' ++ fpRaw).reverse.dropWhile (· == '0')).reverse
  (if m < 0 then ['-'] else []) ++ (Nat.repr (a / 10 ^ k)).toList ++ '.' :: (if fp = [] then ['0'] else fp)

def intRepr (i : Int) : Str := if i < 0 then '-' :: (Nat.repr i.natAbs).toList else (Nat.repr i.natAbs).toList

/-- `str(v)` of a scalar default, as it reaches the command line -/
def litStr : SLit → Option Str
  | .int i => some (intRepr i)
  | .float m k => some (decRepr m k)
  | .str s => some s
  | _ => none

def litToArg : SLit → Option ArgVal
  | .bool b => some (.bool b)
  | .none => some .unset
  | v => (litStr v).map .atom

/-- `_format_arg` for a plain argstr: `f"{argstr} {value}"` split on white space -/
def formatOne (argstr : Str) (v : ArgVal) : Except Err (List Str) :=
  let pre := if argstr = [] then [] else [argstr]
  match v with
  | .atom s => .ok (pre ++ [s])
  | .seq xs => if xs = [] then .ok [] else .ok (pre ++ xs)
  | _ => .error (.unmodelled "argv-value")

def fieldArgv (jobDir : Str) (f : Field) (given : Option ArgVal) : Except Err (List Str) :=
  if f.kind == .out then .ok [] else
  let argstr := f.argstr.getD []
  let v : Except Err ArgVal :=
    match given with
    | some v => .ok v
    | none =>
      match f.default with
      | .noDefault => if f.kind == .outarg ∧ (extOfKind f) then .ok .template else .error (.unmodelled "mandatory-unset")
      | .emptyList => .ok (.many [])
      | .lit (.sc s) => match litToArg s with | some a => .ok a | none => .error (.unmodelled "default-argv")
      | .lit (.tuple xs) => match xs.mapM litStr with | some ys => .ok (.seq ys) | none => .error (.unmodelled "tuple-default-argv")
  match v with
  | .error e => .error e
  | .ok .unset => .ok []
  | .ok .template =>
    match f.pathTemplate with
    | some t => if t.contains '{' then .error (.unmodelled "templated-path") else formatOne argstr (.atom (jobDir ++ '/' :: t))
    | none => .error (.unmodelled "no-template")
  | .ok (.bool b) =>
    if f.ty.base == .single (.builtin "bool".toList) ∧ !f.ty.multi then .ok (if b then [argstr] else [])
    else .error (.unmodelled "bool-value")
  | .ok (.many xs) =>
    if f.ty.multi then (xs.mapM (formatOne argstr)).map List.flatten else .error (.unmodelled "list-value")
  | .ok v => if f.ty.multi then .error (.unmodelled "scalar-for-multi") else formatOne argstr v
where
  /-- an outarg whose class-level input defaults to `True`: a FileSet-typed outarg (`build_task_class`) -/
  extOfKind (f : Field) : Bool :=
    match f.ty.base with
    | .single (.fmt _) => !f.ty.multi
    | _ => false

def lookupGiven (vals : List (Str × ArgVal)) (n : Str) : Option ArgVal := (vals.find? (fun e => e.1 == n)).map (·.2)

/-- executable followed by the fields' arguments in position order (positions are already increasing in `fields`) -/
def commandArgs (jobDir : Str) (d : Def) (vals : List (Str × ArgVal)) : Except Err (List Str) :=
  ((d.fields.filter isArgument).mapM (fun f => fieldArgv jobDir f (lookupGiven vals f.name))).map
    (fun groups => d.exe ++ groups.flatten)

end PydraModel.Template
