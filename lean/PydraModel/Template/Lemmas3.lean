import PydraModel.Template.Lemmas2
/-
Helper lemmas for C25, part 3: one token, the token loop, positions.
-/
namespace PydraModel.Template

/-! ### one `<…>` token: the code's reading is the spec's reading -/

theorem beq_dec {α} [DecidableEq α] (a b : α) : (a == b) = decide (a = b) := rfl

macro "finish_token" : tactic =>
  `(tactic| (cases ‹Role› <;> simp [buildFields, bind, Except.bind, pure, Except.pure, Except.map, beq_dec]))

theorem parseArgBody_render (tbl : FmtTable) (o : Option Str) (r : Role) (a : ArgSpec) (h : argOK a = true) :
    parseArgBody tbl o (argBody r a) = specFields tbl o r a := by
  unfold parseArgBody
  rw [stripRole_render r a h]
  simp only []
  rw [splitModifier_render _ a h]
  unfold specFields specAttrs specDefaultLit specBase specDefault fieldList
  cases hmod : a.mod with
  | plain =>
    simp only [modOf, bind, Except.bind, pure, Except.pure, splitType_render tbl o a h, typeOf]
    cases hty : a.types with
    | none => finish_token
    | some ts => simp only []; cases typeOfStr tbl ts <;> finish_token
  | optional =>
    simp only [modOf, bind, Except.bind, pure, Except.pure, splitType_render tbl o a h, typeOf]
    cases hty : a.types with
    | none => finish_token
    | some ts => simp only []; cases typeOfStr tbl ts <;> finish_token
  | plus =>
    simp only [modOf, bind, Except.bind, pure, Except.pure, splitType_render tbl o a h, typeOf]
    cases hty : a.types with
    | none => finish_token
    | some ts => simp only []; cases typeOfStr tbl ts <;> finish_token
  | star =>
    simp only [modOf, bind, Except.bind, pure, Except.pure, splitType_render tbl o a h, typeOf]
    cases hty : a.types with
    | none => finish_token
    | some ts => simp only []; cases typeOfStr tbl ts <;> finish_token
  | dflt s =>
    simp only [modOf, bind, Except.bind, pure, Except.pure, Except.map]
    cases defaultValue s with
    | error e => simp
    | ok v =>
      simp only [splitType_render tbl o a h, typeOf]
      cases hty : a.types with
      | none =>
        finish_token <;> (generalize coerceDefault _ v = cd; cases cd <;> rfl)
      | some ts =>
        simp only []
        cases typeOfStr tbl ts with
        | error e => finish_token
        | ok b => finish_token <;> (generalize coerceDefault _ v = cd; cases cd <;> rfl)
  | tmpl t =>
    cases r with
    | output =>
      simp only [modOf, beq_dec, decide_true, if_true, bind, Except.bind, pure, Except.pure,
        splitType_render tbl o a h, typeOf]
      cases hty : a.types with
      | none => simp [buildFields, bind, Except.bind, pure, Except.pure, Except.map, beq_dec]
      | some ts =>
        simp only []
        cases typeOfStr tbl ts <;> simp [buildFields, bind, Except.bind, pure, Except.pure, Except.map, beq_dec]
    | input => simp [modOf, beq_dec, bind, Except.bind, Except.map]
    | modify => simp [modOf, beq_dec, bind, Except.bind, Except.map]

end PydraModel.Template
