import PydraModel.Template.Lemmas5
/-
Helper lemmas for C25, part 6: numbering of the fields, the row checker of the regenerated coercion table.
-/
namespace PydraModel.Template

/-- canonical text of a coerced default, as the extractor prints it -/
def litCanon : SLit → Str
  | .int i => intRepr i
  | .float m k => decRepr m k
  | .bool b => if b then "True".toList else "False".toList
  | .str s => '\'' :: s ++ ['\'']
  | .none => "None".toList

/-- one row of the regenerated table `shell.arg(type=T, default=v)`: the model's literal reader and coercion agree -/
def coercionRowOK (row : String × String × String) : Bool :=
  let ty : Ty := { base := .single (.builtin row.1.toList), multi := false, optional := false }
  match defaultValue row.2.1.toList with
  | .ok v =>
    match coerceDefault ty v with
    | .ok (.sc r) => litCanon r == row.2.2.toList
    | .ok _ => false
    | .error .badDefault => row.2.2 == "!TypeError"
    | .error _ => false
  | .error _ => false

/-- `number` gives the command-line fields the positions 1..n in order and changes nothing else. -/
theorem number_positions (fs : List Field) : ∀ s,
    ((number s fs).filter isArgument).map (·.position) = (List.range' s (fs.filter isArgument).length).map some := by
  induction fs with
  | nil => intro s; rfl
  | cons f fs ih =>
    intro s
    by_cases ha : isArgument f = true
    · have : isArgument { f with position := some s } = true := by simpa [isArgument] using ha
      simp only [number, ha, if_true, List.filter_cons, this, List.map_cons, List.length_cons, List.range'_succ, ih (s + 1)]
    · have ha' : isArgument f = false := by simpa using ha
      simp only [number, ha', Bool.false_eq_true, if_false, List.filter_cons, ih s]

theorem specToken_one_argument (tbl : FmtTable) (t : GTok) (new : List Field) (h : specToken tbl t = .ok new) :
    (new.filter isArgument).map (·.name) = [tokName t] := by
  cases t with
  | arg o r a =>
    simp only [specToken, specFields] at h
    obtain ⟨td, _, rfl⟩ := map_ok' h
    unfold fieldList
    cases r <;> simp [beq_dec, isArgument, mkField, tokName, List.filter, bne]
  | flag o n d =>
    simp only [specToken] at h
    obtain ⟨f, hf, rfl⟩ := map_ok' h
    have hn := specFlag_name o n d f hf
    have ha : isArgument f = true := by
      unfold specFlag at hf
      cases d with
      | none =>
        simp only [pure, Except.pure, bind, Except.bind] at hf
        split at hf
        · cases hf
        · cases hf; rfl
      | some s =>
        simp only [pure, Except.pure, bind, Except.bind] at hf
        split at hf
        · cases hf
        · split at hf
          · cases hf
          · cases hf; rfl
    simp [ha, hn, tokName]

theorem number_names (fs : List Field) : ∀ s, ((number s fs).filter isArgument).map (·.name) = (fs.filter isArgument).map (·.name) := by
  induction fs with
  | nil => intro s; rfl
  | cons f fs ih =>
    intro s
    by_cases ha : isArgument f = true
    · have : isArgument { f with position := some s } = true := by simpa [isArgument] using ha
      simp only [number, ha, if_true, List.filter_cons, this, List.map_cons, ih (s + 1)]
    · have ha' : isArgument f = false := by simpa using ha
      simp only [number, ha', Bool.false_eq_true, if_false, List.filter_cons, ih s]

theorem specAll_argument_names (tbl : FmtTable) (ts : List GTok) :
    ∀ fs, specAll tbl ts = .ok fs → (fs.filter isArgument).map (·.name) = ts.map tokName := by
  induction ts with
  | nil => intro fs h; simp [specAll] at h; subst h; rfl
  | cons t ts ih =>
    intro fs h
    rw [specAll_cons] at h
    obtain ⟨new, hnew, h⟩ := bind_ok' h
    obtain ⟨rest, hrest, rfl⟩ := map_ok' h
    simp only [List.filter_append, List.map_append, specToken_one_argument tbl t new hnew, ih rest hrest,
      List.map_cons, List.singleton_append]

end PydraModel.Template
