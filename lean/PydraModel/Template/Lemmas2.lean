import PydraModel.Template.Lemmas
/-
Helper lemmas for C25, part 2: the string surgery of the `arg_re` branch undoes `argBody`.
-/
namespace PydraModel.Template

/-- name and type annotation, the part of a body before the modifier -/
def coreText (a : ArgSpec) : Str := a.name ++ typesPart a.types

def isCoreChar (c : Char) : Bool := isIdentChar c || isTypeChar c || c == ':'

theorem argBody_core (r : Role) (a : ArgSpec) : argBody r a = rolePrefix r ++ (coreText a ++ modSuffix a.mod) := by
  simp [argBody, coreText]

theorem core_chars (a : ArgSpec) (h : argOK a = true) : ∀ c ∈ coreText a, isCoreChar c = true := by
  simp only [argOK, nameOK, Bool.and_eq_true] at h
  obtain ⟨⟨⟨_, hn⟩, ht⟩, _⟩ := h
  intro c hc
  simp only [coreText, List.mem_append] at hc
  rcases hc with hc | hc
  · simp [isCoreChar, (all_iff _ _).mp hn c hc]
  · cases hty : a.types with
    | none => simp [hty, typesPart] at hc
    | some ts =>
      simp only [hty, typesPart, List.mem_cons] at hc
      rcases hc with rfl | hc
      · decide
      · simp only [hty] at ht
        simp [isCoreChar, (all_iff _ _).mp ht c hc]

theorem core_not {c : Char} (h : isCoreChar c = true) :
    c ≠ '?' ∧ c ≠ '+' ∧ c ≠ '*' ∧ c ≠ '=' ∧ c ≠ '$' ∧ c ≠ '|' ∧ c ≠ '>' := by
  refine ⟨?_, ?_, ?_, ?_, ?_, ?_, ?_⟩ <;> (intro e; subst e; revert h; decide)

theorem not_mem_core (a : ArgSpec) (h : argOK a = true) (c : Char) (hc : isCoreChar c = false) : c ∉ coreText a := by
  intro hm
  rw [core_chars a h c hm] at hc
  cases hc

/-! ### `stripRole` -/

theorem stripRole_output (rest : Str) : stripRole (rolePrefix .output ++ rest) = (true, false, rest) := rfl

theorem stripRole_modify (rest : Str) : stripRole (rolePrefix .modify ++ rest) = (false, true, rest) := rfl

theorem dropWhile_ident_append (n r : Str) (hn : ∀ c ∈ n, isIdentChar c = true)
    (hr : r = [] ∨ ∃ c r', r = c :: r' ∧ isIdentChar c = false) : (n ++ r).dropWhile isIdentChar = r := by
  rcases hr with rfl | ⟨c, r', rfl, hc⟩
  · simpa using dropWhile_all isIdentChar n hn
  · exact dropWhile_append_stop isIdentChar n c r' hn hc

/-- a text that starts with an identifier followed by something other than `|` carries no role prefix -/
theorem stripRole_plain (n r : Str) (hn : ∀ c ∈ n, isIdentChar c = true)
    (hr : r = [] ∨ ∃ c r', r = c :: r' ∧ isIdentChar c = false ∧ c ≠ '|') :
    stripRole (n ++ r) = (false, false, n ++ r) := by
  have hd := dropWhile_ident_append n r hn (by
    rcases hr with h | ⟨c, r', h1, h2, _⟩
    · exact Or.inl h
    · exact Or.inr ⟨c, r', h1, h2⟩)
  unfold stripRole
  split
  · rename_i r0 heq
    exfalso
    rw [heq] at hd
    have : ('o' :: 'u' :: 't' :: '|' :: r0).dropWhile isIdentChar = '|' :: r0 := by
      simp [List.dropWhile, show isIdentChar 'o' = true by decide, show isIdentChar 'u' = true by decide,
        show isIdentChar 't' = true by decide, show isIdentChar '|' = false by decide]
    rw [this] at hd
    rcases hr with h | ⟨c, r', h1, _, h3⟩
    · rw [h] at hd; cases hd
    · rw [h1] at hd; cases hd; exact h3 rfl
  · rename_i r0 heq
    exfalso
    rw [heq] at hd
    have : ('m' :: 'o' :: 'd' :: 'i' :: 'f' :: 'y' :: '|' :: r0).dropWhile isIdentChar = '|' :: r0 := by
      simp [List.dropWhile, show isIdentChar 'm' = true by decide, show isIdentChar 'o' = true by decide,
        show isIdentChar 'd' = true by decide, show isIdentChar 'i' = true by decide,
        show isIdentChar 'f' = true by decide, show isIdentChar 'y' = true by decide,
        show isIdentChar '|' = false by decide]
    rw [this] at hd
    rcases hr with h | ⟨c, r', h1, _, h3⟩
    · rw [h] at hd; cases hd
    · rw [h1] at hd; cases hd; exact h3 rfl
  · rfl

theorem afterName_head (a : ArgSpec) :
    let r := typesPart a.types ++ modSuffix a.mod
    r = [] ∨ ∃ c r', r = c :: r' ∧ isIdentChar c = false ∧ c ≠ '|' := by
  intro r
  cases hty : a.types with
  | some ts => right; exact ⟨':', ts ++ modSuffix a.mod, by simp [r, hty, typesPart], by decide, by decide⟩
  | none =>
    cases hm : a.mod with
    | plain => left; simp [r, hty, hm, typesPart, modSuffix]
    | optional => right; exact ⟨'?', [], by simp [r, hty, hm, typesPart, modSuffix], by decide, by decide⟩
    | plus => right; exact ⟨'+', [], by simp [r, hty, hm, typesPart, modSuffix], by decide, by decide⟩
    | star => right; exact ⟨'*', [], by simp [r, hty, hm, typesPart, modSuffix], by decide, by decide⟩
    | dflt s => right; exact ⟨'=', s, by simp [r, hty, hm, typesPart, modSuffix], by decide, by decide⟩
    | tmpl t => right; exact ⟨'$', t, by simp [r, hty, hm, typesPart, modSuffix], by decide, by decide⟩

theorem stripRole_render (r : Role) (a : ArgSpec) (h : argOK a = true) :
    stripRole (argBody r a) = (r == .output, r == .modify, coreText a ++ modSuffix a.mod) := by
  rw [argBody_core]
  cases r with
  | output => exact stripRole_output _
  | modify => exact stripRole_modify _
  | input =>
    have hn : ∀ c ∈ a.name, isIdentChar c = true := by
      simp only [argOK, nameOK, Bool.and_eq_true] at h
      exact (all_iff _ _).mp h.1.1.2
    have := stripRole_plain a.name (typesPart a.types ++ modSuffix a.mod) hn (afterName_head a)
    have e1 : (Role.input == Role.output) = false := by decide
    have e2 : (Role.input == Role.modify) = false := by decide
    simpa [rolePrefix, coreText, e1, e2] using this

/-! ### `splitTwo` -/

theorem splitTwo_mid (c : Char) (l r : Str) (hl : c ∉ l) (hr : c ∉ r) : splitTwo c (l ++ c :: r) = .ok (l, r) := by
  have hp : ∀ x ∈ l, (x != c) = true := by
    intro x hx
    simp only [bne_iff_ne, ne_eq]
    intro e; subst e; exact hl hx
  have hc : (c != c) = false := by simp
  unfold splitTwo
  simp only [takeWhile_append_stop _ l c r hp hc, dropWhile_append_stop _ l c r hp hc, List.drop_one, List.tail_cons]
  simp [hr]

/-! ### `splitModifier` -/

theorem getLast?_append_ne {α} (l m : List α) (h : m ≠ []) : (l ++ m).getLast? = m.getLast? := by
  induction l with
  | nil => rfl
  | cons a l ih =>
    have : l ++ m ≠ [] := by simp [h]
    rw [List.cons_append, List.getLast?_cons_of_ne_nil this, ih]

theorem getLast?_mem' {α} {l : List α} {a : α} (h : l.getLast? = some a) : a ∈ l := List.mem_of_getLast? h

theorem core_last (a : ArgSpec) (h : argOK a = true) (c : Char) (hc : isCoreChar c = false) :
    (coreText a).getLast? ≠ some c := by
  intro e
  exact not_mem_core a h c hc (getLast?_mem' e)

/-- what `splitModifier` must return on a rendered body (the default literal evaluated, `$` refused on inputs) -/
def modOf (isOut : Bool) (core : Str) : ModSpec → Except Err (Str × Modifier)
  | .plain => .ok (core, .plain)
  | .optional => .ok (core, .optional)
  | .plus => .ok (core, .plus)
  | .star => .ok (core, .star)
  | .dflt s => (defaultValue s).map (fun v => (core, .dflt v))
  | .tmpl t => if isOut then .ok (core, .tmpl t) else .error .templateOnInput

theorem tailText_last {s : Str} (h : tailTextOK s = true) :
    s.getLast? ≠ some '?' ∧ s.getLast? ≠ some '+' ∧ s.getLast? ≠ some '*' := by
  simp only [tailTextOK, Bool.and_eq_true, Bool.not_eq_true', Bool.or_eq_false_iff, beq_eq_false_iff_ne, ne_eq] at h
  exact ⟨h.2.1.1, h.2.1.2, h.2.2⟩

theorem splitModifier_render (isOut : Bool) (a : ArgSpec) (h : argOK a = true) :
    splitModifier isOut (coreText a ++ modSuffix a.mod) = modOf isOut (coreText a) a.mod := by
  have hq := core_last a h '?' (by decide)
  have hp := core_last a h '+' (by decide)
  have hs := core_last a h '*' (by decide)
  have he := not_mem_core a h '=' (by decide)
  have hd := not_mem_core a h '$' (by decide)
  have hm : modOK a.mod = true := by
    simp only [argOK, Bool.and_eq_true] at h; exact h.2
  cases hmod : a.mod with
  | plain =>
    simp only [modSuffix, List.append_nil, modOf]
    unfold splitModifier
    simp [hq, hp, hs, he, hd]
  | optional =>
    simp only [modSuffix, modOf]
    unfold splitModifier
    simp [he]
  | plus =>
    simp only [modSuffix, modOf]
    unfold splitModifier
    simp
  | star =>
    simp only [modSuffix, modOf]
    unfold splitModifier
    simp
  | dflt s =>
    simp only [hmod, modOK] at hm
    obtain ⟨h1, _, h3⟩ := tailText_shape hm
    obtain ⟨l1, l2, l3⟩ := tailText_last hm
    have hl : (coreText a ++ '=' :: s).getLast? = s.getLast? := by
      rw [show coreText a ++ '=' :: s = (coreText a ++ ['=']) ++ s by simp]
      exact getLast?_append_ne _ s h1
    simp only [modSuffix, modOf]
    unfold splitModifier
    rw [hl]
    simp only [l1, l2, l3, if_false]
    rw [splitTwo_mid '=' (coreText a) s he h3]
    have hc : (coreText a ++ '=' :: s).contains '=' = true := by simp
    simp only [hc, if_true, Except.map, bind, Except.bind, pure, Except.pure]
  | tmpl t =>
    simp only [hmod, modOK, Bool.and_eq_true, Bool.not_eq_true', List.contains_eq_mem, decide_eq_false_iff_not] at hm
    obtain ⟨h1, _, h3⟩ := tailText_shape hm.1
    obtain ⟨l1, l2, l3⟩ := tailText_last hm.1
    have hl : (coreText a ++ '$' :: t).getLast? = t.getLast? := by
      rw [show coreText a ++ '$' :: t = (coreText a ++ ['$']) ++ t by simp]
      exact getLast?_append_ne _ t h1
    simp only [modSuffix, modOf]
    unfold splitModifier
    rw [hl]
    simp only [l1, l2, l3, if_false]
    have hne : ¬ ((coreText a ++ '$' :: t).contains '=' = true) := by
      simp [he, h3]
    simp only [hne]
    have hc : (coreText a ++ '$' :: t).contains '$' = true := by simp
    simp only [hc, if_true]
    rw [splitTwo_mid '$' (coreText a) t hd hm.2]
    cases isOut <;> simp [bind, Except.bind, pure, Except.pure]

/-! ### `splitType` -/

/-- what `splitType` must return on `name[:types]` -/
def typeOf (tbl : FmtTable) (option : Option Str) (a : ArgSpec) : Except Err (Str × BaseTy) :=
  match a.types with
  | some ts => (typeOfStr tbl ts).map (fun b => (a.name, b))
  | none => .ok (a.name, BaseTy.single (if option.isNone then fsObject else .builtin "str".toList))

theorem splitType_render (tbl : FmtTable) (option : Option Str) (a : ArgSpec) (h : argOK a = true) :
    splitType tbl option (coreText a) = typeOf tbl option a := by
  simp only [argOK, nameOK, Bool.and_eq_true] at h
  obtain ⟨⟨⟨_, hn⟩, ht⟩, _⟩ := h
  have hname : ':' ∉ a.name := by
    intro hm
    have := (all_iff _ _).mp hn ':' hm
    revert this; decide
  unfold splitType typeOf coreText
  cases hty : a.types with
  | none =>
    simp [typesPart, hname, pure, Except.pure]
  | some ts =>
    have hts : ':' ∉ ts := by
      intro hm
      simp only [hty] at ht
      have := (all_iff _ _).mp ht ':' hm
      revert this; decide
    simp only [typesPart]
    have hc : (a.name ++ ':' :: ts).contains ':' = true := by simp
    simp only [hc, if_true]
    rw [splitTwo_mid ':' a.name ts hname hts]
    simp only [Except.map, bind, Except.bind, pure, Except.pure]

end PydraModel.Template
