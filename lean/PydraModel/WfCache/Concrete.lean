import Lean.Data.Json
import PydraModel.WfCache.Model
/-
C30: the concrete instance of `Sig` used by the driver — the generated workflow definitions of
harness/engines/wfcache.py, interpreted in Lean:

    def W(x, y, n, b):   a = Enc(atag, x, y)   [or  Enc(atag, y=y).split("x", x=x)]
                         c_0 … c_{n+k-1} chained on a          (k = closure value of a factory-made class, else 0)
                         if b: s = Enc("s", x=y, y=last.out)
                         return last.out

Hashes: `typeHash` ignores the closure value `k` (pydra hashes a class by its constructor *source*: D28);
`valHash` is the identity (value hashing itself is the subject of C08).
-/
namespace PydraModel.WfCache.Concrete
open Lean PydraModel.WfCache

inductive CVal
  | int (i : Int)
  | bool (b : Bool)
  | list (l : List Int)
  deriving DecidableEq, Repr, Inhabited

structure Def where
  source : Nat × Nat        -- identity of the constructor source text: (0, d) plain definition d, (1, g) factory group g
  k : Nat                   -- closure value (0 for plain definitions)
  atag : String             -- tag of the first node
  split : Bool              -- node `a` splits over the list `x`
  deriving Repr, Inhabited

inductive GSrc
  | none
  | const (v : CVal)
  | lzin (f : Fld)
  | out (node : String)
  deriving Repr, Inhabited

structure GNode where
  name : String
  tag : String
  x : GSrc
  y : GSrc
  split : Bool := false
  deriving Repr, Inhabited

structure CG where
  nodes : List GNode
  last : String
  deriving Repr, Inhabited

def cvalToJson : CVal → Json
  | .int i => Json.num (JsonNumber.fromInt i)
  | .bool b => Json.bool b
  | .list l => Json.arr (l.map fun i => Json.num (JsonNumber.fromInt i)).toArray

def fldName : Fld → String
  | .x => "x" | .y => "y" | .n => "n" | .b => "b"

/-- The constructor of class `c`, applied to the non-lazy values (`none` = `LazyInField`). -/
def ctor (defs : Array Def) (c : Nat) (nl : Fld → Option CVal) : Except String CG := do
  let d ← match defs[c]? with
    | some d => pure d
    | none => throw "bad-class"
  -- `range(n + K)`: a LazyInField (or a non-int) is a TypeError
  let n ← match nl .n with
    | some (.int n) => pure n.toNat
    | _ => throw "TypeError"
  -- `if b:` — a LazyInField is an object: truthy
  let b := match nl .b with
    | some (.bool b) => b
    | some (.int i) => i != 0
    | some (.list l) => !l.isEmpty
    | none => true
  let src (f : Fld) : GSrc := match nl f with
    | some v => .const v
    | none => .lzin f
  let a : GNode := { name := "a", tag := d.atag, x := src .x, y := src .y, split := d.split }
  let chain := (List.range (n + d.k)).map fun i =>
    ({ name := s!"c{i}", tag := s!"c{i}", x := .out (if i = 0 then "a" else s!"c{i - 1}"), y := .none } : GNode)
  let last := if n + d.k = 0 then "a" else s!"c{n + d.k - 1}"
  if b then
    return { nodes := a :: chain ++ [{ name := "s", tag := "s", x := src .y, y := .out last }], last := "s" }
  else
    return { nodes := a :: chain, last := last }

def srcView (inputs : Fld → Option CVal) : GSrc → Json
  | .none => Json.null
  | .const v => cvalToJson v
  | .lzin f => match inputs f with
    | some v => cvalToJson v
    | none => Json.arr #[Json.str "lzin", Json.str (fldName f)]
  | .out n => Json.arr #[Json.str "out", Json.str n]

/-- Graph view, as `harness/engines/wfcache.py::view` computes it on the real `Workflow`. -/
def view (g : CG) (inputs : Fld → Option CVal) : Json :=
  Json.mkObj [
    ("nodes", Json.arr (g.nodes.map fun nd => Json.arr #[Json.str nd.name,
        Json.mkObj [("tag", Json.str nd.tag), ("x", srcView inputs nd.x), ("y", srcView inputs nd.y), ("z", Json.null)]]).toArray),
    ("inputs", Json.mkObj (Fld.all.map fun f => (fldName f, srcView inputs (.lzin f)))),
    ("outputs", Json.mkObj [("out", Json.arr #[Json.str "out", Json.str g.last])])]

/-- Value of a node: one output, or one per element of the split (`state`). -/
structure NVal where
  state : Bool
  vals : List Json

def resolve (inputs : Fld → Option CVal) (env : List (String × NVal)) : GSrc → NVal
  | .none => ⟨false, [Json.null]⟩
  | .const v => ⟨false, [cvalToJson v]⟩
  | .lzin f => ⟨false, [match inputs f with | some v => cvalToJson v | none => Json.str "unresolved-lazy-input"]⟩
  | .out n => (env.find? fun e => e.1 == n).map (·.2) |>.getD ⟨false, [Json.null]⟩

def enc (tag : String) (x y : Json) : Json := Json.arr #[Json.str tag, x, y, Json.null]

/-- Running a constructed graph (every node is the encoder task; a split node runs once per element). -/
def exec (g : CG) (inputs : Fld → Option CVal) : Json :=
  let env := g.nodes.foldl (init := ([] : List (String × NVal))) fun env nd =>
    let xv := resolve inputs env nd.x
    let yv := resolve inputs env nd.y
    let v : NVal :=
      if nd.split then
        let elems := match xv.vals with
          | [Json.arr a] => a.toList
          | _ => []
        ⟨true, elems.map fun e => enc nd.tag e (yv.vals.getD 0 Json.null)⟩
      else if xv.state then ⟨true, xv.vals.map fun p => enc nd.tag p (yv.vals.getD 0 Json.null)⟩
      else if yv.state then ⟨true, yv.vals.map fun p => enc nd.tag (xv.vals.getD 0 Json.null) p⟩
      else ⟨false, [enc nd.tag (xv.vals.getD 0 Json.null) (yv.vals.getD 0 Json.null)]⟩
    env ++ [(nd.name, v)]
  match (env.find? fun e => e.1 == g.last).map (·.2) with
  | some (v : NVal) => if v.state then Json.arr v.vals.toArray else v.vals.getD 0 Json.null
  | none => Json.null

/-- The signature instance for a list of generated definitions. -/
def sig (defs : Array Def) (window : Option Nat := none) : Sig :=
  { Val := CVal, G := CG, Out := Json, View := Json, E := String
    HT := Nat × Nat, HV := List (Fld × CVal)
    ctor := ctor defs
    typeHash := fun c => (defs[c]?.map (·.source)).getD (2, c)
    valHash := id
    exec := exec
    view := view
    window := window }

end PydraModel.WfCache.Concrete
