import PydraModel.WfCache.Model
/-
C30 helper lemmas: the cache invariant ("every cache entry equals the constructor applied to its key's values") and the
soundness of one `Workflow.construct` call under it.
-/
namespace PydraModel.WfCache

variable (S : Sig)

/-- Two task classes with the same hash have the same constructor (no closure data outside the hashed source: ¬D28). -/
def ClosureFree : Prop := ∀ c1 c2, S.typeHash c1 = S.typeHash c2 → S.ctor c1 = S.ctor c2

/-- The value hash separates the dictionaries in play (collision-freedom of value hashing is C08's subject). -/
def HashInj : Prop := ∀ l1 l2 : List (Fld × S.Val), S.valHash l1 = S.valHash l2 → l1 = l2

/-- The constructor does not branch on inputs that are lazy: a graph built with fewer non-lazy inputs (`ks ⊆ keys`) is,
    once the additional inputs are set, indistinguishable from the graph built with them — and building with them
    succeeds. -/
def LazyParametric : Prop :=
  ∀ (c : Nat) (vals : Fld → S.Val) (ks keys : List Fld) (g' : S.G),
    subsetOf ks keys = true → S.ctor c (mask S ks vals) = .ok g' →
    ∃ g, S.ctor c (mask S keys vals) = .ok g ∧
      S.view g' (mask S keys vals) = S.view g (mask S keys vals) ∧
      S.exec g' (mask S keys vals) = S.exec g (mask S keys vals)

/-- A cache entry is exactly what the constructor of some class with that hash returns on some values with that hash. -/
def EntryOK (th : S.HT) (ks : List Fld) (vh : S.HV) (wf : WfObj S) : Prop :=
  ∃ (c : Nat) (vals : Fld → S.Val) (g : S.G),
    th = S.typeHash c ∧ vh = S.valHash (restrict S ks vals) ∧ S.ctor c (mask S ks vals) = .ok g ∧
    wf = { graph := g, inputs := mask S ks vals }

/-- INVARIANT: every entry of `Workflow._constructed_cache` equals the constructor applied to its key's values. -/
def CacheInv (cache : Cache S) : Prop :=
  ∀ th l2, (th, l2) ∈ cache → ∀ ks l3, (ks, l3) ∈ l2 → ∀ vh wf, (vh, wf) ∈ l3 → EntryOK S th ks vh wf

theorem lookup_mem {κ β : Type} [DecidableEq κ] (l : List (κ × β)) (k : κ) (b : β) (h : lookup l k = some b) :
    (k, b) ∈ l := by
  induction l with
  | nil => simp [lookup] at h
  | cons e l ih =>
    obtain ⟨k', b'⟩ := e
    simp only [lookup] at h
    by_cases hk : k' = k
    · simp only [hk, if_true, Option.some.injEq] at h
      subst hk; subst h; exact List.mem_cons_self
    · simp only [hk, if_false] at h
      exact List.mem_cons_of_mem _ (ih h)

theorem mem_insertAt {κ β : Type} [DecidableEq κ] (l : List (κ × β)) (k : κ) (b : β) (x : κ × β)
    (h : x ∈ insertAt l k b) : x = (k, b) ∨ x ∈ l := by
  induction l with
  | nil => simp [insertAt] at h; exact Or.inl h
  | cons e l ih =>
    obtain ⟨k', b'⟩ := e
    simp only [insertAt] at h
    by_cases hk : k' = k
    · simp only [hk, if_true] at h
      rcases List.mem_cons.mp h with h | h
      · exact Or.inl h
      · exact Or.inr (List.mem_cons_of_mem _ h)
    · simp only [hk, if_false] at h
      rcases List.mem_cons.mp h with h | h
      · exact Or.inr (h ▸ List.mem_cons_self)
      · rcases ih h with h | h
        · exact Or.inl h
        · exact Or.inr (List.mem_cons_of_mem _ h)

theorem getD_lookup_mem {κ β : Type} [DecidableEq κ] (l : List (κ × List β)) (k : κ) (x : β)
    (h : x ∈ (lookup l k).getD []) : ∃ lb, (k, lb) ∈ l ∧ x ∈ lb := by
  cases hl : lookup l k with
  | none => simp [hl] at h
  | some lb => exact ⟨lb, lookup_mem l k lb hl, by simpa [hl] using h⟩

theorem cacheInv_insert (cache : Cache S) (th : S.HT) (keys : List Fld) (vh : S.HV) (wf : WfObj S)
    (hinv : CacheInv S cache) (hnew : EntryOK S th keys vh wf) : CacheInv S (cacheInsert S cache th keys vh wf) := by
  intro th' l2' hm ks l3' hm2 vh' wf' hm3
  unfold cacheInsert at hm
  rcases mem_insertAt _ _ _ _ hm with h | h
  · -- the updated second level
    obtain ⟨rfl, rfl⟩ := Prod.mk.inj h
    rcases mem_insertAt _ _ _ _ hm2 with h2 | h2
    · obtain ⟨rfl, rfl⟩ := Prod.mk.inj h2
      rcases mem_insertAt _ _ _ _ hm3 with h3 | h3
      · obtain ⟨rfl, rfl⟩ := Prod.mk.inj h3
        exact hnew
      · obtain ⟨l3, hl3, hx⟩ := getD_lookup_mem _ _ _ h3
        obtain ⟨l2, hl2, hy⟩ := getD_lookup_mem _ _ _ hl3
        exact hinv _ _ hl2 _ _ hy _ _ hx
    · obtain ⟨l2, hl2, hy⟩ := getD_lookup_mem _ _ _ h2
      exact hinv _ _ hl2 _ _ hy _ _ hm3
  · exact hinv _ _ h _ _ hm2 _ _ hm3

theorem restrict_eq {ks : List Fld} {v w : Fld → S.Val} (h : restrict S ks v = restrict S ks w) :
    ∀ f, ks.contains f = true → v f = w f := by
  intro f hf
  induction ks with
  | nil => simp at hf
  | cons k ks ih =>
    simp only [restrict, List.map_cons, List.cons.injEq, Prod.mk.injEq, true_and] at h
    rcases List.mem_cons.mp (List.contains_iff_mem.mp hf) with hk | hk
    · subst hk; exact h.1
    · exact ih h.2 (List.contains_iff_mem.mpr hk)

theorem mask_congr {ks : List Fld} {v w : Fld → S.Val} (h : ∀ f, ks.contains f = true → v f = w f) :
    mask S ks v = mask S ks w := by
  funext f
  unfold mask
  by_cases hf : f ∈ ks
  · simp [hf, h f (List.contains_iff_mem.mpr hf)]
  · simp [hf]

theorem supersetHit_sound (l2 : Level2 S) (keys : List Fld) (vals : Fld → S.Val) (left : Option Nat) (ks : List Fld)
    (wf : WfObj S) (h : supersetHit S l2 keys vals left = some (ks, wf)) :
    subsetOf ks keys = true ∧ ∃ l3, (ks, l3) ∈ l2 ∧ (S.valHash (restrict S ks vals), wf) ∈ l3 := by
  induction l2 generalizing left with
  | nil => simp [supersetHit] at h
  | cons e l2 ih =>
    obtain ⟨ks', l3'⟩ := e
    have lift : ∀ {left'}, supersetHit S l2 keys vals left' = some (ks, wf) →
        subsetOf ks keys = true ∧ ∃ l3, (ks, l3) ∈ (ks', l3') :: l2 ∧ (S.valHash (restrict S ks vals), wf) ∈ l3 := by
      intro left' h'
      obtain ⟨h1, l3, h2, h3⟩ := ih left' h'
      exact ⟨h1, l3, List.mem_cons_of_mem _ h2, h3⟩
    unfold supersetHit at h
    by_cases hs : subsetOf ks' keys = true
    · simp only [hs, if_true] at h
      cases left with
      | none =>
        simp only at h
        cases hl : lookup l3' (S.valHash (restrict S ks' vals)) with
        | none => rw [hl] at h; exact lift h
        | some wf' =>
          rw [hl] at h
          simp only [Option.some.injEq, Prod.mk.injEq] at h
          obtain ⟨rfl, rfl⟩ := h
          exact ⟨hs, l3', List.mem_cons_self, lookup_mem _ _ _ hl⟩
      | some n =>
        cases n with
        | zero => simp only at h; exact lift h
        | succ n =>
          simp only at h
          cases hl : lookup l3' (S.valHash (restrict S ks' vals)) with
          | none => rw [hl] at h; exact lift h
          | some wf' =>
            rw [hl] at h
            simp only [Option.some.injEq, Prod.mk.injEq] at h
            obtain ⟨rfl, rfl⟩ := h
            exact ⟨hs, l3', List.mem_cons_self, lookup_mem _ _ _ hl⟩
    · simp only [hs] at h
      exact lift (by simpa using h)

/-- What a correct `construct` call returns: a workflow indistinguishable from the constructor's own result on the task's
    current non-lazy values, or the constructor's exception. -/
def ResultOK (r : Except S.E (WfObj S)) (c : Nat) (keys : List Fld) (vals : Fld → S.Val) : Prop :=
  match S.ctor c (mask S keys vals) with
  | .ok g => ∃ wf, r = .ok wf ∧ S.view wf.graph wf.inputs = S.view g (mask S keys vals) ∧
      S.exec wf.graph wf.inputs = S.exec g (mask S keys vals)
  | .error e => r = .error e

theorem subsetOf_refl (ks : List Fld) : subsetOf ks ks = true := by
  unfold subsetOf
  rw [List.all_eq_true]
  intro f hf
  exact List.contains_iff_mem.mpr hf

/-- MEMO TRANSPARENCY of one `Workflow.construct` call (exact hit, superset-of-lazy hit, miss). -/
theorem construct_sound (hcf : ClosureFree S) (hinj : HashInj S) (hpar : LazyParametric S)
    (cache : Cache S) (hinv : CacheInv S cache) (c : Nat) (vals : Fld → S.Val) (lazy : List Fld) :
    CacheInv S (construct S cache c vals lazy).2 ∧
    ResultOK S (construct S cache c vals lazy).1 c (keysOf lazy) vals := by
  unfold construct
  simp only
  -- exact hit?
  cases hex : ((lookup ((lookup cache (S.typeHash c)).getD []) (keysOf lazy)).bind fun l3 =>
      lookup l3 (S.valHash (restrict S (keysOf lazy) vals))) with
  | some wf =>
    simp only
    refine ⟨hinv, ?_⟩
    -- the entry is OK
    obtain ⟨l3, hl3, hwf⟩ : ∃ l3, lookup ((lookup cache (S.typeHash c)).getD []) (keysOf lazy) = some l3 ∧
        lookup l3 (S.valHash (restrict S (keysOf lazy) vals)) = some wf := by
      cases h1 : lookup ((lookup cache (S.typeHash c)).getD []) (keysOf lazy) with
      | none => simp [h1] at hex
      | some l3 => exact ⟨l3, rfl, by simpa [h1] using hex⟩
    obtain ⟨l2, hl2, hy⟩ := getD_lookup_mem _ _ _ (lookup_mem _ _ _ hl3)
    obtain ⟨c', vals', g, hth, hvh, hct, hw⟩ := hinv _ _ hl2 _ _ hy _ _ (lookup_mem _ _ _ hwf)
    have hm : mask S (keysOf lazy) vals' = mask S (keysOf lazy) vals :=
      mask_congr S (restrict_eq S (hinj _ _ hvh).symm)
    have hc : S.ctor c (mask S (keysOf lazy) vals) = .ok g := by
      rw [← hm, hcf c c' hth]; exact hct
    unfold ResultOK
    rw [hc]
    exact ⟨wf, rfl, by rw [hw, hm], by rw [hw, hm]⟩
  | none =>
    simp only
    cases hsup : supersetHit S ((lookup cache (S.typeHash c)).getD []) (keysOf lazy) vals S.window with
    | some p =>
      obtain ⟨ks, wf⟩ := p
      simp only
      refine ⟨hinv, ?_⟩
      obtain ⟨hsub, l3, hl3, hwf⟩ := supersetHit_sound S _ _ _ _ _ _ hsup
      obtain ⟨l2, hl2, hy⟩ := getD_lookup_mem _ _ _ hl3
      obtain ⟨c', vals', g', hth, hvh, hct, hw⟩ := hinv _ _ hl2 _ _ hy _ _ hwf
      subst hw
      have hpt := restrict_eq S (hinj _ _ hvh).symm
      have hm : mask S ks vals' = mask S ks vals := mask_congr S hpt
      have hc : S.ctor c (mask S ks vals) = .ok g' := by
        rw [← hm, hcf c c' hth]; exact hct
      obtain ⟨g, hg, hv, he⟩ := hpar c vals ks (keysOf lazy) g' hsub hc
      -- the inputs of the copy, after `setattr`, are exactly the requested non-lazy values
      have hin : (fun f => if (keysOf lazy).contains f && !(ks.contains f) then some (vals f) else mask S ks vals' f)
          = mask S (keysOf lazy) vals := by
        funext f
        simp only [mask]
        by_cases h1 : f ∈ ks
        · have h2 : f ∈ keysOf lazy := by
            unfold subsetOf at hsub
            rw [List.all_eq_true] at hsub
            exact List.contains_iff_mem.mp (hsub f h1)
          simp [h1, h2, hpt f (List.contains_iff_mem.mpr h1)]
        · by_cases h2 : f ∈ keysOf lazy
          · simp [h1, h2]
          · simp [h1, h2]
      unfold ResultOK
      rw [hg]
      refine ⟨_, rfl, ?_, ?_⟩
      · show S.view g' (fun f => if (keysOf lazy).contains f && !(ks.contains f) then some (vals f) else mask S ks vals' f) = _
        rw [hin]; exact hv
      · show S.exec g' (fun f => if (keysOf lazy).contains f && !(ks.contains f) then some (vals f) else mask S ks vals' f) = _
        rw [hin]; exact he
    | none =>
      simp only
      cases hct : S.ctor c (mask S (keysOf lazy) vals) with
      | ok g =>
        simp only
        refine ⟨cacheInv_insert S _ _ _ _ _ hinv ⟨c, vals, g, rfl, rfl, hct, rfl⟩, ?_⟩
        unfold ResultOK
        rw [hct]
        exact ⟨_, rfl, rfl, rfl⟩
      | error e =>
        simp only
        refine ⟨hinv, ?_⟩
        unfold ResultOK
        rw [hct]

end PydraModel.WfCache
