/-
Engine `WfCache` (DESIGN §5.10, property C30): the workflow construction caches as a state machine.

Mirrors `Workflow.construct` (pydra/engine/workflow.py): the class-level cache
      type hash  →  frozenset of non-lazy keys  →  hash of the non-lazy values  →  Workflow
with its exact hit (the cached object itself is returned), its superset-of-lazy hit (first key set, in insertion order,
that is a subset of the requested non-lazy keys and holds the hash of the requested values restricted to it: `deepcopy`
+ `setattr` of the additional non-lazy inputs; the result is NOT inserted), its miss (the constructor runs, the result is
inserted) and `clear_cache`;  `WorkflowTask.construct` (pydra/compose/workflow.py): the per-instance memo
`_constructed`, never invalidated by attribute assignment;  and, for runs into a shared cache root, the result store keyed
by the job checksum (class hash, hash of all input values).

The workflow *constructor* is an uninterpreted function of the non-lazy input values (`none` = the input is lazy), as are
the two hash functions, the execution of a constructed graph and the graph view: `Sig`.  The spec is the same machine
without any cache: every `construct` / `run` calls the constructor on the task's current values.
-/
namespace PydraModel.WfCache

/-- Input fields of the generated workflow definitions. -/
inductive Fld | x | y | n | b
  deriving DecidableEq, Repr, Inhabited

def Fld.all : List Fld := [.x, .y, .n, .b]

/-- The uninterpreted ingredients. -/
structure Sig where
  Val : Type                                      -- input values
  G : Type                                        -- constructed graphs
  Out : Type                                      -- workflow outputs
  View : Type                                     -- what is observable of a constructed workflow
  E : Type                                        -- exceptions raised by a constructor
  HT : Type                                       -- hash of a task class
  HV : Type                                       -- hash of a dictionary of values
  [decHT : DecidableEq HT]
  [decHV : DecidableEq HV]
  ctor : Nat → (Fld → Option Val) → Except E G    -- class id → non-lazy values → graph
  typeHash : Nat → HT
  valHash : List (Fld × Val) → HV
  exec : G → (Fld → Option Val) → Out             -- run a graph; lazy workflow inputs are read from the Workflow's inputs
  view : G → (Fld → Option Val) → View            -- graph view with lazy workflow inputs resolved through the inputs
  /-- Environment parameter: how many candidate key sets of the superset-of-lazy search get a correct hash.
      `Workflow.construct` shares one id-keyed hash memo (`hash_cache`) over the temporaries `subset_vals`; on CPython the
      third and every later temporary reuses the `id` of a freed one and is given that one's (stale) hash, so only the
      first two candidates can hit (measured by the harness on every run; `none` = no limit). -/
  window : Option Nat := none

attribute [instance] Sig.decHT Sig.decHV

variable (S : Sig)

/-- A constructed `Workflow` object: the graph and its `inputs` (`none` = still a `LazyInField`). -/
structure WfObj where
  graph : S.G
  inputs : Fld → Option S.Val

/-- The non-lazy keys of a request, in canonical order (the frozenset). -/
def keysOf (lazy : List Fld) : List Fld := Fld.all.filter fun f => !(lazy.contains f)

def mask (S : Sig) (keys : List Fld) (vals : Fld → S.Val) : Fld → Option S.Val :=
  fun f => if keys.contains f then some (vals f) else none

def restrict (S : Sig) (keys : List Fld) (vals : Fld → S.Val) : List (Fld × S.Val) := keys.map fun f => (f, vals f)

/-- Third level: value hash ↦ Workflow (insertion order). -/
abbrev Level3 := List (S.HV × WfObj S)
/-- Second level: key set ↦ third level (insertion order of the key sets = iteration order of the superset search). -/
abbrev Level2 := List (List Fld × Level3 S)
/-- `Workflow._constructed_cache`. -/
abbrev Cache := List (S.HT × Level2 S)

def lookup {κ β : Type} [DecidableEq κ] (l : List (κ × β)) (k : κ) : Option β :=
  match l with
  | [] => none
  | (k', b) :: r => if k' = k then some b else lookup r k

def insertAt {κ β : Type} [DecidableEq κ] (l : List (κ × β)) (k : κ) (b : β) : List (κ × β) :=
  match l with
  | [] => [(k, b)]
  | (k', b') :: r => if k' = k then (k', b) :: r else (k', b') :: insertAt r k b

def subsetOf (a b : List Fld) : Bool := a.all b.contains

/-- The superset-of-lazy search over the key sets of one class, in insertion order.  `left` = how many further candidate
    key sets get a correct hash (see `Sig.window`); a candidate with a stale hash never matches. -/
def supersetHit (l2 : Level2 S) (keys : List Fld) (vals : Fld → S.Val) (left : Option Nat) :
    Option (List Fld × WfObj S) :=
  match l2 with
  | [] => none
  | (ks, l3) :: rest =>
    if subsetOf ks keys then
      match left with
      | some 0 => supersetHit rest keys vals (some 0)
      | _ =>
        match lookup l3 (S.valHash (restrict S ks vals)) with
        | some wf => some (ks, wf)
        | none => supersetHit rest keys vals (left.map (· - 1))
    else supersetHit rest keys vals left

def cacheInsert (c : Cache S) (th : S.HT) (keys : List Fld) (vh : S.HV) (wf : WfObj S) : Cache S :=
  let l2 := (lookup c th).getD []
  let l3 := (lookup l2 keys).getD []
  insertAt c th (insertAt l2 keys (insertAt l3 vh wf))

/-- `Workflow.construct(task, lazy=…)`. -/
def construct (cache : Cache S) (cls : Nat) (vals : Fld → S.Val) (lazy : List Fld) :
    Except S.E (WfObj S) × Cache S :=
  let keys := keysOf lazy
  let th := S.typeHash cls
  let vh := S.valHash (restrict S keys vals)
  let l2 := (lookup cache th).getD []
  match (lookup l2 keys).bind fun l3 => lookup l3 vh with
  | some wf => (.ok wf, cache)                                  -- exact hit: the cached object itself
  | none =>
    match supersetHit S l2 keys vals S.window with
    | some (ks, wf) =>                                          -- deepcopy + setattr of the additional non-lazy inputs
      (.ok { graph := wf.graph, inputs := fun f => if keys.contains f && !(ks.contains f) then some (vals f) else wf.inputs f },
       cache)
    | none =>
      match S.ctor cls (mask S keys vals) with
      | .ok g =>
        let wf : WfObj S := { graph := g, inputs := mask S keys vals }
        (.ok wf, cacheInsert S cache th keys vh wf)
      | .error e => (.error e, cache)

/-- A task instance: its class, its current input values, the per-instance memo `_constructed`. -/
structure TaskSt where
  cls : Nat
  vals : Fld → S.Val
  memo : Option (WfObj S)

structure State where
  tasks : List (TaskSt S)
  cache : Cache S
  store : List ((S.HT × S.HV) × S.Out)            -- results in the shared cache root, by job checksum

inductive Op (S : Sig)
  | construct (i : Nat) (lazy : List Fld)         -- Workflow.construct(task_i, lazy=…)
  | tconstruct (i : Nat)                          -- task_i.construct()
  | run (i : Nat) (shared : Bool)                 -- task_i(cache_root = shared root | fresh root)
  | set (i : Nat) (f : Fld) (v : S.Val)           -- task_i.f = v
  | clear                                         -- Workflow.clear_cache()

inductive Obs (S : Sig)
  | view (v : S.View)
  | out (o : S.Out)
  | error (e : S.E)
  | none
  | badTask

def setTask (tasks : List (TaskSt S)) (i : Nat) (t : TaskSt S) : List (TaskSt S) := tasks.set i t

def update (S : Sig) (vals : Fld → S.Val) (f : Fld) (v : S.Val) : Fld → S.Val := fun g => if g = f then v else vals g

/-- `WorkflowTask.construct()`. -/
def tconstruct (st : State S) (i : Nat) (t : TaskSt S) : Except S.E (WfObj S) × State S :=
  match t.memo with
  | some wf => (.ok wf, st)
  | none =>
    match construct S st.cache t.cls t.vals [] with
    | (.ok wf, cache) => (.ok wf, { st with cache := cache, tasks := setTask S st.tasks i { t with memo := some wf } })
    | (.error e, cache) => (.error e, { st with cache := cache })

/-- One operation of the history on the caching machine. -/
def step (st : State S) : Op S → Obs S × State S
  | .construct i lazy =>
    match st.tasks[i]? with
    | none => (.badTask, st)
    | some t =>
      match construct S st.cache t.cls t.vals lazy with
      | (.ok wf, cache) => (.view (S.view wf.graph wf.inputs), { st with cache := cache })
      | (.error e, cache) => (.error e, { st with cache := cache })
  | .tconstruct i =>
    match st.tasks[i]? with
    | none => (.badTask, st)
    | some t =>
      match tconstruct S st i t with
      | (.ok wf, st') => (.view (S.view wf.graph wf.inputs), st')
      | (.error e, st') => (.error e, st')
  | .run i shared =>
    match st.tasks[i]? with
    | none => (.badTask, st)
    | some t =>
      let key := (S.typeHash t.cls, S.valHash (restrict S Fld.all t.vals))
      match (if shared then lookup st.store key else none) with
      | some o => (.out o, st)                                   -- result found under the job's checksum: nothing runs
      | none =>
        match tconstruct S st i t with
        | (.ok wf, st') =>
          let o := S.exec wf.graph wf.inputs
          (.out o, if shared then { st' with store := insertAt st'.store key o } else st')
        | (.error e, st') => (.error e, st')
  | .set i f v =>
    match st.tasks[i]? with
    | none => (.badTask, st)
    | some t => (.none, { st with tasks := setTask S st.tasks i { t with vals := update S t.vals f v } })
  | .clear => (.none, { st with cache := [] })

def runHist (st : State S) : List (Op S) → List (Obs S)
  | [] => []
  | op :: rest => let (o, st') := step S st op; o :: runHist st' rest

/-! ### Spec: the same operations without any cache -/

/-- Only the current input values of the tasks matter. -/
abbrev SpecState := List (Nat × (Fld → S.Val))

def specStep (st : SpecState S) : Op S → Obs S × SpecState S
  | .construct i lazy =>
    match st[i]? with
    | none => (.badTask, st)
    | some (cls, vals) =>
      match S.ctor cls (mask S (keysOf lazy) vals) with
      | .ok g => (.view (S.view g (mask S (keysOf lazy) vals)), st)
      | .error e => (.error e, st)
  | .tconstruct i =>
    match st[i]? with
    | none => (.badTask, st)
    | some (cls, vals) =>
      match S.ctor cls (mask S Fld.all vals) with
      | .ok g => (.view (S.view g (mask S Fld.all vals)), st)
      | .error e => (.error e, st)
  | .run i _ =>
    match st[i]? with
    | none => (.badTask, st)
    | some (cls, vals) =>
      match S.ctor cls (mask S Fld.all vals) with
      | .ok g => (.out (S.exec g (mask S Fld.all vals)), st)
      | .error e => (.error e, st)
  | .set i f v =>
    match st[i]? with
    | none => (.badTask, st)
    | some (cls, vals) => (.none, st.set i (cls, update S vals f v))
  | .clear => (.none, st)

def specHist (st : SpecState S) : List (Op S) → List (Obs S)
  | [] => []
  | op :: rest => let (o, st') := specStep S st op; o :: specHist st' rest

/-- No in-place input change after construct: `set i` never follows a `tconstruct i` / `run i` (which may memoise). -/
def okHist (touched : List Nat) : List (Op S) → Bool
  | [] => true
  | .set i _ _ :: r => !(touched.contains i) && okHist touched r
  | .tconstruct i :: r => okHist (i :: touched) r
  | .run i _ :: r => okHist (i :: touched) r
  | .construct _ _ :: r => okHist touched r
  | .clear :: r => okHist touched r

/-- Initial states: tasks just created, nothing cached. -/
def init (tasks : List (Nat × (Fld → S.Val))) : State S :=
  { tasks := tasks.map fun (c, v) => { cls := c, vals := v, memo := none }, cache := [], store := [] }

end PydraModel.WfCache
