import PydraModel.Hash.DriverImpl
/-
JSON-lines driver of the Hash engine (C06, C07, C08).  The digest parameter `H` of the model is instantiated here —
and only here — with the Lean BLAKE2b of `Hash/Blake2b.lean` (digest_size / person taken from `Gen/HashLits.lean`), so that
`hash_function(v)` can be compared hex for hex.  Op `blake2b` lets the harness validate that instantiation against
`hashlib.blake2b` on random inputs in every run.

ops
  {"op":"blake2b","hex":h}                      -> {"hex": digest}
  {"op":"hash","v":V[,"alone":true]}            -> {"hex": hash_function(V)[, "alone": pure hash]}  | {"error": tag}
  {"op":"hash_ctx","vs":[V...]}                 -> {"hexes":[...]}  all hashed with ONE shared Cache, in order
  {"op":"checksum","task":T}                    -> {"checksum": "...", "hash": "..."} | {"error": tag}
  {"op":"sorted","xs":[V...]}                   -> {"order":[indices]}   what `sorted` does to the list (model's pySorted)
-/
def main : IO Unit := PydraModel.DriverUtil.run PydraModel.Hash.DriverImpl.handle
