import PydraModel.DriverUtil
import PydraModel.Graph.Model
open Lean PydraModel PydraModel.Graph PydraModel.DriverUtil

def natList (j : Json) : Except String (List Nat) := do
  (← j.getArr?).toList.mapM (fun x => x.getNat?)

def edgeList (j : Json) : Except String (List (Nat × Nat)) := do
  (← j.getArr?).toList.mapM (fun x => do
    let a ← x.getArr?
    if a.size != 2 then throw "edge" else return ((← a[0]!.getNat?), (← a[1]!.getNat?)))

def opOfJson (j : Json) : Except String Op := do
  let a ← j.getArr?
  if a.size == 0 then throw "op" else
  match (← a[0]!.getStr?) with
  | "add_nodes" => return .addNodes (← natList a[1]!)
  | "add_edges" => return .addEdges (← edgeList a[1]!)
  | "remove_nodes" => return .removeNodes (← natList a[1]!)
  | "remove_conn" => return .removeConnections (← natList a[1]!)
  | "read" => return .read
  | "remove_successors" => return .removeSuccessors (← a[1]!.getNat?)
  | s => throw s!"bad-op {s}"

def errName : Err → String
  | .duplicate => "ValueError" | .badEdge => "Exception" | .notPresent => "Exception"
  | .notReady => "Exception" | .cycle => "ValueError" | .notWip => "ValueError"
  | .reused => "model:name-reused" | .notClosed => "model:traversal-incomplete"

def natsJ (l : List Nat) : Json := Json.arr (l.map (fun n => toJson n)).toArray

def stateJ (g : G) : Json := Json.mkObj [
  ("nodes", natsJ g.nodes),
  ("edges", Json.arr (g.edges.map (fun e => natsJ [e.1, e.2])).toArray),
  ("wip", natsJ g.wip),
  ("sorted", match g.sorted with | none => Json.null | some l => natsJ l)]

def outcome {α} (r : Except Err α) : String := match r with | .ok _ => "ok" | .error e => errName e

def apply (g : G) : Op → String × G
  | .addNodes ns => let r := addNodes g ns; (outcome r.1, r.2)
  | .addEdges es => let r := addEdges g es; (outcome r.1, r.2)
  | .removeNodes ns => let r := removeNodes g ns; (outcome r.1, r.2)
  | .removeConnections ns => let r := removeConnections g ns; (outcome r.1, r.2)
  | .read => let r := readSorted g; (outcome r.1, r.2)
  | .removeSuccessors n => let r := removeSuccessors g n; (outcome r.1, r.2)

/-- run until the first raising call (a history is a list of non-raising calls) -/
def trace : G → List Op → List Json
  | _, [] => []
  | g, op :: ops =>
    let (o, g') := apply g op
    let rec_ := Json.mkObj [("outcome", Json.str o), ("state", stateJ g')]
    if o == "ok" then rec_ :: trace g' ops else [rec_]

def handle (j : Json) : Json :=
  match (do let ops ← (← getArr j "ops").toList.mapM opOfJson; return Json.mkObj [("trace", Json.arr (trace G.empty ops).toArray)] : Except String Json) with
  | .ok v => v
  | .error e => err e

def main : IO Unit := run handle
