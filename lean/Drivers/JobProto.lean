import PydraModel.DriverUtil
import PydraModel.Gen.JobSkeleton
import PydraModel.JobProto.Model
import PydraModel.JobProto.Lemmas
import PydraModel.JobProto.Bind
import PydraModel.JobProto.Conc
import PydraModel.JobProto.ShellExec
/-
JSON-lines driver of the JobProto engine (part A).

  {"op":"positions","prog":"run"|"arun"}
      -> {"acts":[names…], "vp":[[point, index]…]}
  {"op":"exec","prog":…,"core":{…},"errInit":"absent|trunc|complete","jobInit":…,
   "env":{"rerun":b,"prov":b,"bodyFails":null|false|true},
   "fault":{"kind":"none"} | {"kind":"raise"|"die"|"torn","at":i,"base":b},
   "submit":null | {"raiseErrors":b,"inProcess":b}}
      -> {"ctl":…, "core":{…}, "execs":n, "finished":n, "hooks":[…], "errFile":…, "jobFile":…,
          "vps":[points passed, in order], "trace":[positions performed], "report":… (if "submit")}
  {"op":"history","prog":…,"core":{…},"errInit":…,"jobInit":…,
   "steps":[{"env":…,"fault":…,"submit":…,"then":"death"|"next"}…]}
      -> {"steps":[answers as for "exec"; file states are threaded through, counters are per step]}
  {"op":"after","how":"death"|"next","core":{…}} -> {"core":{…}}     (world the next process / next Job finds)
  {"op":"interleave","prog":…,"n":k,"dir":b,"result":…,"gates":[hook points…],
   "events":[{"ev":"start"|"release"|"acquired","pid":i}…]}
      -> {"status":[[per process: "notStarted"|"waiting:<point>"|"blocked"|"ended:<ctl>"] after each event],
          "procs":[{ended,resVar,cwd,info}…], "execs":n, "dir":b, "result":…, "jobLock":null|pid}
  {"op":"shell_rc","rc":n} -> {"raises":b,"test":"<source of the test in Native.execute>"}
  (in "env": "shellRc": n — the body is a shell command ending with return code n — may replace "bodyFails")
  {"op":"bind","ret":{"kind":"none|tuple|dict|other","n":k,"keys":[…]},"outs":[[name, mandatory]…]}
      -> {"ok":[[name, value]…]} | {"err":"ValueError"|"RuntimeError"}
-/
open Lean PydraModel PydraModel.JobProto PydraModel.DriverUtil PydraModel.Gen.JobSkeleton

def progOf (s : String) : Except String Prog :=
  match s with
  | "run" => pure jobRun
  | "arun" => pure jobRunAsync
  | _ => throw s!"bad-prog {s}"

def actName : Act → String
  | .hookPreRun => "hookPreRun" | .hookPreRunTask => "hookPreRunTask" | .hookPostRunTask => "hookPostRunTask"
  | .hookPostRun => "hookPostRun" | .lockAcquire .job => "lockAcquire.job" | .lockAcquire .save => "lockAcquire.save"
  | .lockRelease .job => "lockRelease.job" | .lockRelease .save => "lockRelease.save" | .loadResult => "loadResult"
  | .returnIfCachedOk => "returnIfCachedOk" | .saveCwd => "saveCwd" | .chdirJob => "chdirJob"
  | .restoreCwd => "restoreCwd" | .writeInfo => "writeInfo" | .unlinkInfo => "unlinkInfo" | .clearDir => "clearDir"
  | .mkDir => "mkDir" | .ensureDir => "ensureDir" | .saveJob => "saveJob" | .saveResult => "saveResult"
  | .copyOutputs => "copyOutputs" | .recordError => "recordError" | .initResult => "initResult"
  | .markErrored => "markErrored" | .markJobErrored => "markJobErrored" | .clearJobErrored => "clearJobErrored"
  | .auditStart => "auditStart" | .auditTask => "auditTask" | .monitor => "monitor" | .auditFinal => "auditFinal"
  | .body => "body" | .collectOutputs => "collectOutputs" | .reraise => "reraise" | .checkHashes => "checkHashes"
  | .ret => "ret"
  | .vp n => "vp:" ++ (vpNames.getD n "?")

def fileStOf (s : String) : Except String FileSt :=
  match s with
  | "absent" => pure .absent | "trunc" => pure .trunc | "complete" => pure .complete
  | _ => throw s!"bad-file {s}"

def fileStName : FileSt → String
  | .absent => "absent" | .trunc => "trunc" | .complete => "complete"

def resFileOf (s : String) : Except String ResFile :=
  match s with
  | "absent" => pure .absent | "trunc" => pure .trunc
  | "ok" => pure (.complete ⟨false, true⟩) | "err" => pure (.complete ⟨true, false⟩)
  | "ok_noout" => pure (.complete ⟨false, false⟩) | "err_out" => pure (.complete ⟨true, true⟩)
  | _ => throw s!"bad-result {s}"

def resValName (v : ResVal) : String :=
  match v.errored, v.outputs with
  | false, true => "ok" | true, false => "err" | false, false => "ok_noout" | true, true => "err_out"

def resFileName : ResFile → String
  | .absent => "absent" | .trunc => "trunc" | .complete v => resValName v

def lockOf (s : String) : Except String LockSt :=
  match s with
  | "free" => pure .free | "mine" => pure .mine | "otherLive" => pure .otherLive | "otherDead" => pure .otherDead
  | _ => throw s!"bad-lock {s}"

def lockName : LockSt → String
  | .free => "free" | .mine => "mine" | .otherLive => "otherLive" | .otherDead => "otherDead"

def cwdOf (s : String) : Except String Cwd :=
  match s with
  | "orig" => pure .orig | "jobDir" => pure .jobDir | _ => throw s!"bad-cwd {s}"

def cwdName : Cwd → String
  | .orig => "orig" | .jobDir => "jobDir"

def optOf {α} (f : String → Except String α) (j : Json) : Except String (Option α) :=
  match j with
  | .null => pure none
  | .str s => do return some (← f s)
  | _ => throw "bad-option"

def resValOf (s : String) : Except String ResVal := do
  match (← resFileOf s) with
  | .complete v => pure v
  | _ => throw s!"bad-resval {s}"

def coreOf (j : Json) : Except String Core := do
  let b (k : String) : Except String Bool := j.getObjValAs? Bool k
  return {
    dir := ← b "dir", result := ← resFileOf (← getStr j "result"), jobLock := ← lockOf (← getStr j "jobLock"),
    saveLock := ← lockOf (← getStr j "saveLock"), info := ← b "info", cwd := ← cwdOf (← getStr j "cwd"),
    savedCwd := ← optOf cwdOf (← j.getObjVal? "savedCwd"), resVar := ← optOf resValOf (← j.getObjVal? "resVar"),
    jobErrored := ← b "jobErrored", lastRaiseBase := ← b "lastRaiseBase" }

def optJ {α} (f : α → String) : Option α → Json
  | none => Json.null
  | some a => Json.str (f a)

def coreJ (c : Core) : Json := Json.mkObj [
  ("dir", toJson c.dir), ("result", Json.str (resFileName c.result)), ("jobLock", Json.str (lockName c.jobLock)),
  ("saveLock", Json.str (lockName c.saveLock)), ("info", toJson c.info), ("cwd", Json.str (cwdName c.cwd)),
  ("savedCwd", optJ cwdName c.savedCwd), ("resVar", optJ resValName c.resVar), ("jobErrored", toJson c.jobErrored),
  ("lastRaiseBase", toJson c.lastRaiseBase)]

def envOf (j : Json) : Except String Env := do
  -- `"shellRc": n` (a shell task whose command ends with return code n) takes precedence over `"bodyFails"`
  let bf ← match j.getObjVal? "shellRc" with
    | .ok (.num n) =>
      if n.exponent != 0 then throw "bad-shellRc" else pure (shellBody Gen.ShellExec.nativeRcTest n.mantissa)
    | _ => match (← j.getObjVal? "bodyFails") with
      | .null => pure none
      | .bool b => pure (some b)
      | _ => throw "bad-bodyFails"
  return { rerun := ← j.getObjValAs? Bool "rerun", prov := ← j.getObjValAs? Bool "prov", bodyFails := bf,
           auditChdir := auditStartChdir }

def faultOf (j : Json) : Except String Fault := do
  match (← getStr j "kind") with
  | "none" => pure .none
  | "raise" => return .raiseAt (← getNat j "at") (← j.getObjValAs? Bool "base")
  | "die" => return .dieAt (← getNat j "at")
  | "torn" => return .tornAt (← getNat j "at")
  | k => throw s!"bad-fault {k}"

def ctlName : Ctl → String
  | .normal => "normal" | .raising false => "raising" | .raising true => "raisingBase" | .returning => "returning"
  | .dead => "dead" | .blocked => "blocked"

def hookName : Hook → String
  | .preRun => "pre_run" | .preRunTask => "pre_run_task" | .postRunTask => "post_run_task" | .postRun => "post_run"

def reportName : Report → String
  | .outputs true => "outputs" | .outputs false => "outputsNone" | .originalException false => "originalException"
  | .originalException true => "originalBaseException" | .failedWithRecordedError => "failedWithRecordedError"
  | .failedNotRetrieved => "failedNotRetrieved" | .noResult => "noResult" | .died => "died" | .blocked => "blocked"

/-- one call; returns the JSON answer, the core afterwards and the file states afterwards -/
def execStep (p : Prog) (c : Core) (errInit jobInit : FileSt) (env : Env) (f : Fault) (sub : Option (Bool × Bool)) :
    Json × Core × FileSt × FileSt :=
  -- the logged run gives the result and the sequence of performed actions
  let rl := p.run (logSem (jobSem env f)) 0 (⟨c, []⟩, [])
  let w := rl.1.1
  let performed := rl.1.2.reverse
  let vps := performed.filterMap fun e => match e.2.1 with | .vp n => some (Json.str (vpNames.getD n "?")) | _ => none
  let ef := errFileAfter errInit w.evs
  let jf := jobFileAfter jobInit w.evs
  let base := [
    ("ctl", Json.str (ctlName rl.2)), ("core", coreJ w.core), ("execs", toJson (execsIn w.evs)),
    ("finished", toJson (finishedIn w.evs)),
    ("hooks", Json.arr ((hooksIn w.evs).map fun h => Json.str (hookName h)).toArray),
    ("errFile", Json.str (fileStName ef)), ("jobFile", Json.str (fileStName jf)),
    ("vps", Json.arr vps.toArray), ("trace", Json.arr (performed.map fun e => toJson e.1).toArray)]
  match sub with
  | none => (Json.mkObj base, w.core, ef, jf)
  | some (re, ip) =>
    let r := submit p env f re ip errInit ⟨c, []⟩
    (Json.mkObj (base ++ [("report", Json.str (reportName r.2)), ("coreAfterSubmit", coreJ r.1.core)]), r.1.core, ef, jf)

def subOf (j : Json) : Except String (Option (Bool × Bool)) := do
  match (← j.getObjVal? "submit") with
  | .null => return none
  | s => return some (← s.getObjValAs? Bool "raiseErrors", ← s.getObjValAs? Bool "inProcess")

def handleExec (j : Json) : Except String Json := do
  let p ← progOf (← getStr j "prog")
  let c ← coreOf (← j.getObjVal? "core")
  let env ← envOf (← j.getObjVal? "env")
  let f ← faultOf (← j.getObjVal? "fault")
  let errInit ← fileStOf (← getStr j "errInit")
  let jobInit ← fileStOf (← getStr j "jobInit")
  return (execStep p c errInit jobInit env f (← subOf j)).1

/-- a history of calls; after each step the world is handed to a new process (`"then":"death"`) or to the next
    job object of the same process (`"then":"next"`) -/
def handleHistory (j : Json) : Except String Json := do
  let p ← progOf (← getStr j "prog")
  let mut c ← coreOf (← j.getObjVal? "core")
  let mut ef ← fileStOf (← getStr j "errInit")
  let mut jf ← fileStOf (← getStr j "jobInit")
  let mut out : Array Json := #[]
  for st in (← getArr j "steps") do
    let env ← envOf (← st.getObjVal? "env")
    let f ← faultOf (← st.getObjVal? "fault")
    let (ans, c', ef', jf') := execStep p c ef jf env f (← subOf st)
    out := out.push ans
    ef := ef'
    jf := jf'
    c ← match (← getStr st "then") with
      | "death" => pure (afterDeathC c')
      | "next" => pure (nextJobC c')
      | h => throw s!"bad-then {h}"
  return Json.mkObj [("steps", Json.arr out)]

def valName : Bind.Val → Json
  | .pyNone => Json.str "None" | .whole => Json.str "whole" | .elem i => Json.mkObj [("elem", toJson i)]
  | .key k => Json.mkObj [("key", toJson k)] | .nothing => Json.str "NOTHING" | .default => Json.str "default"

def handleBind (j : Json) : Except String Json := do
  let r ← j.getObjVal? "ret"
  let ret ← match (← getStr r "kind") with
    | "none" => pure Bind.Ret.none
    | "tuple" => do pure (Bind.Ret.tuple (← getNat r "n"))
    | "dict" => do pure (Bind.Ret.dict (← (← getArr r "keys").toList.mapM (fun x => x.getNat?)))
    | "other" => pure Bind.Ret.other
    | k => throw s!"bad-ret {k}"
  let outs ← (← getArr j "outs").toList.mapM fun o => do
    let a ← o.getArr?
    if a.size != 2 then throw "out" else
    return ({ name := ← a[0]!.getNat?, mandatory := ← a[1]!.getBool? } : Bind.Out)
  match Bind.bindReturn ret outs with
  | .ok bs => return Json.mkObj [("ok", Json.arr (bs.map fun b => Json.arr #[toJson b.1, valName b.2]).toArray)]
  | .error .noOutputFields => return Json.mkObj [("err", Json.str "ValueError")]
  | .error _ => return Json.mkObj [("err", Json.str "RuntimeError")]

/-! ### interleavings gated at hook points (C10) -/

inductive PStat | waiting (vp : Nat) | blocked | ended (c : Ctl) | running

def pstat (g : Global) (pid : Pid) (gated : List Nat) : PStat :=
  let p := g.procs pid
  match p.ended with
  | some c => .ended c
  | none =>
    match p.cfg.next p.env.rerun p.env.prov with
    | .action _ (.vp n) _ => if gated.contains n then .waiting n else .running
    | .action i (.lockAcquire .job) _ =>
      if (coreStep p.env .none i (.lockAcquire .job) (viewCore g pid)).2.1 = .blocked then .blocked else .running
    | _ => .running

/-- let `pid` run until it waits at a gated hook point, blocks on the job lock, or ends -/
def advance (gated : List Nat) : Nat → Global → Pid → Global
  | 0, g, _ => g
  | fuel + 1, g, pid =>
    match pstat g pid gated with
    | .running => advance gated fuel (gstep g pid) pid
    | _ => g

def pstatJ (g : Global) (pid : Pid) (gated : List Nat) : Json :=
  match pstat g pid gated with
  | .waiting n => Json.str ("waiting:" ++ vpNames.getD n "?")
  | .blocked => Json.str "blocked"
  | .ended c => Json.str ("ended:" ++ ctlName c)
  | .running => Json.str "running"

def handleInterleave (j : Json) : Except String Json := do
  let p ← progOf (← getStr j "prog")
  let n ← getNat j "n"
  let dir ← j.getObjValAs? Bool "dir"
  let result ← resFileOf (← getStr j "result")
  let gated := (← (← getArr j "gates").toList.mapM (fun x => x.getStr?)).filterMap fun s =>
    let i := vpNames.idxOf s; if i < vpNames.length then some i else none
  let mut g := Global.init p (fun _ => ⟨false, false, none, auditStartChdir⟩) dir result
  let mut started : List Nat := []
  let mut out : Array Json := #[]
  for ev in (← getArr j "events") do
    let pid ← getNat ev "pid"
    if pid ≥ n then throw "bad-pid"
    match (← getStr ev "ev") with
    | "start" =>
      if started.contains pid then throw "already-started"
      started := started ++ [pid]
      g := advance gated 2000 g pid
    | "release" =>
      match pstat g pid gated with
      | .waiting _ => g := advance gated 2000 (gstep g pid) pid
      | _ => throw s!"release: process {pid} is not waiting at a gate"
    | "acquired" =>
      match pstat g pid gated with
      | .blocked => throw s!"acquired: the lock is not free for {pid}"
      | _ => g := advance gated 2000 g pid
    | e => throw s!"bad-event {e}"
    let stats := (List.range n).map fun q =>
      if started.contains q then pstatJ g q gated else Json.str "notStarted"
    out := out.push (Json.arr stats.toArray)
  let procs := (List.range n).map fun q =>
    Json.mkObj [("ended", match (g.procs q).ended with | some c => Json.str (ctlName c) | none => Json.null),
                ("resVar", optJ resValName (g.procs q).loc.resVar), ("cwd", Json.str (cwdName (g.procs q).loc.cwd)),
                ("info", toJson (g.procs q).loc.info)]
  return Json.mkObj [
    ("status", Json.arr out), ("procs", Json.arr procs.toArray),
    ("execs", toJson ((g.sh.evs.filter fun e => e.2 == Ev.bodyEntered).length)),
    ("dir", toJson g.sh.dir), ("result", Json.str (resFileName g.sh.result)),
    ("jobLock", match g.sh.jobLock with | none => Json.null | some q => toJson q)]

def handle (j : Json) : Json :=
  let r : Except String Json := do
    match (← getStr j "op") with
    | "positions" =>
      let p ← progOf (← getStr j "prog")
      let acts := p.flatten
      let vps := acts.zipIdx.filterMap fun (a, i) =>
        match a with | .vp n => some (Json.arr #[Json.str (vpNames.getD n "?"), toJson i]) | _ => none
      return Json.mkObj [("acts", Json.arr (acts.map fun a => Json.str (actName a)).toArray), ("vp", Json.arr vps.toArray),
                         ("tryBody", Json.null)]
    | "exec" => handleExec j
    | "history" => handleHistory j
    | "interleave" => handleInterleave j
    | "after" =>
      let c ← coreOf (← j.getObjVal? "core")
      match (← getStr j "how") with
      | "death" => return Json.mkObj [("core", coreJ (afterDeathC c))]
      | "next" => return Json.mkObj [("core", coreJ (nextJobC c))]
      | h => throw s!"bad-how {h}"
    | "bind" => handleBind j
    | "shell_rc" =>
      let rc ← j.getObjValAs? Int "rc"
      return Json.mkObj [("raises", toJson (Gen.ShellExec.nativeRcTest.eval rc)),
                         ("test", Json.str Gen.ShellExec.nativeRcTestSrc)]
    | op => throw s!"bad-op {op}"
  match r with
  | .ok v => v
  | .error e => err e

def main : IO Unit := run handle
