import PydraModel.DriverUtil
import PydraModel.Sched.Model
/-
JSON-lines driver of the `Sched` model.

  {"op": "async", "nodes": [0,1,..], "edges": [[a,b],..], "jobs": [[ck,..] per node, in `nodes` order],
   "k": null | n, "old": false,                  -- old = dispatch rule before the D11 repair (documentation only)
   "schedule": [[["acq",c] | ["ok",c] | ["err",c] | ["done",c] | ["van",c], ...], ...]}
  -> {"sorted": [..] | null, "rounds": [{"tasks": [[n,i]..], "pending": [..], "dispatched": [..], "tables": {..}}, ..],
      "status": "cont" | "done" | "bad", "outcome": .., "named": [..], "truth": [[ck, "ok"], ..], "maxlocked": n,
      "futured": [..]}
  {"op": "sync", ..., "fail": [ck, ..]} -> {"outcome": .., "ran": [..], "tables": {..}}
-/
open Lean PydraModel PydraModel.Graph PydraModel.Sched PydraModel.DriverUtil

def natList (j : Json) : Except String (List Nat) := do
  (← j.getArr?).toList.mapM (fun x => x.getNat?)

def edgeList (j : Json) : Except String (List (Nat × Nat)) := do
  (← j.getArr?).toList.mapM (fun x => do
    let a ← x.getArr?
    if a.size != 2 then throw "edge" else return ((← a[0]!.getNat?), (← a[1]!.getNat?)))

def evOfJson (j : Json) : Except String Ev := do
  let a ← j.getArr?
  if a.size != 2 then throw "move" else
  let c ← a[1]!.getNat?
  match (← a[0]!.getStr?) with
  | "acq" => return .acquire c
  | "ok" => return .finishOk c
  | "err" => return .finishErr c
  | "done" => return .complete c
  | "van" => return .vanish c
  | s => throw s!"bad-move {s}"

def natsJ (l : List Nat) : Json := Json.arr (l.map (fun n => toJson n)).toArray

def truthName : Truth → String
  | .idle => "idle" | .locked => "locked" | .dead => "dead" | .ok => "ok" | .err => "err"

def nsJ (s : NS) : Json := Json.mkObj [
  ("blocked", match s.blk with | none => Json.null | some b => natsJ b),
  ("queued", natsJ s.queued), ("running", natsJ s.running),
  ("successful", natsJ (s.successful.toArray.qsort (· < ·)).toList),
  ("errored", natsJ (s.errored.toArray.qsort (· < ·)).toList),
  ("unrunnable", Json.bool s.unrunnable)]

def tablesJ (nodes : List Nat) (ns : NSMap) : Json :=
  Json.mkObj (nodes.map (fun n => (toString n, nsJ (ns.get n))))

def jobsJ (l : List Job) : Json := Json.arr (l.map (fun j => natsJ [j.1, j.2])).toArray

structure Case where
  wf : Wf
  k : Option Nat
  allCks : List Nat
  old : Bool

def parseCase (j : Json) : Except String Case := do
  let nodes ← natList (← j.getObjVal? "nodes")
  let edges ← edgeList (← j.getObjVal? "edges")
  let jobsArr ← (← getArr j "jobs").toList.mapM natList
  if jobsArr.length != nodes.length then throw "jobs/nodes length" else
  let tbl := nodes.zip jobsArr
  let k ← match j.getObjVal? "k" with
    | .ok Json.null => pure none
    | .ok v => do pure (some (← v.getNat?))
    | .error _ => throw "k missing"
  let old := match j.getObjVal? "old" with | .ok (Json.bool b) => b | _ => false
  let g : G := ⟨nodes, edges, [], none⟩
  let mk : NodeId → List (List Val) → List Ck := fun n _ => (tbl.lookup n).getD []
  return ⟨⟨g, mk, fun c => c⟩, k, (jobsArr.flatten).eraseDups, old⟩

def countLocked (cks : List Nat) (w : World) : Nat := (cks.filter (fun c => w c == .locked)).length

/-- apply moves one by one, tracking the maximal number of simultaneously executing bodies -/
def applyTrack (cks : List Nat) : St → List Ev → Nat → Option (St × Nat)
  | st, [], m => some (st, m)
  | st, e :: es, m => match applyEv st e with
    | some st' => applyTrack cks st' es (max m (countLocked cks st'.w))
    | none => none

def snapshot (c : Case) (prevFutured : List Ck) (st : St) : Json := Json.mkObj [
  ("tasks", jobsJ st.tasks), ("pending", natsJ st.futures),
  ("dispatched", natsJ (st.futured.drop prevFutured.length)),
  ("tables", tablesJ c.wf.g.nodes st.ns)]

def stepFrom (c : Case) (sorted : List NodeId) (st : St) : Step :=
  if c.old then afterPollOld c.wf c.k sorted (doPoll c.wf c.k sorted st)
  else afterPoll c.wf c.k sorted (doPoll c.wf c.k sorted st)

def outcomeJ : Outcome → List (String × Json)
  | .success => [("outcome", "success"), ("named", natsJ [])]
  | .failed l => [("outcome", "failed"), ("named", natsJ l)]
  | .failedNodes l => [("outcome", "failedNodes"), ("named", natsJ l)]
  | .stall => [("outcome", "stall"), ("named", natsJ [])]

def play (c : Case) (sorted : List NodeId) : List (List Ev) → Step → List Ck → Array Json → Nat →
    Array Json × Nat × String × Option Outcome × Option St
  | _, .bad, _, acc, mx => (acc, mx, "bad", none, none)
  | _, .done o st, _, acc, mx => (acc, mx, "done", some o, some st)
  | [], .cont st, prevFutured, acc, mx => (acc.push (snapshot c prevFutured st), mx, "cont", none, some st)
  | mv :: rest, .cont st, prevFutured, acc, mx =>
    let acc := acc.push (snapshot c prevFutured st)
    if st.futures.isEmpty && !mv.isEmpty then (acc, mx, "bad", none, some st) else
    match applyTrack c.allCks st mv mx with
    | none => (acc, mx, "bad", none, some st)
    | some (st1, mx') =>
      if !st.futures.isEmpty && st1.futures.length == st.futures.length then (acc, mx', "bad", none, some st1) else
      play c sorted rest (stepFrom c sorted st1) st.futured acc mx'

def handleAsync (j : Json) : Except String Json := do
  let c ← parseCase j
  let sched ← (← getArr j "schedule").toList.mapM (fun r => do (← r.getArr?).toList.mapM evOfJson)
  match sortFrom c.wf.g [] with
  | none => return Json.mkObj [("sorted", Json.null), ("status", "cycle")]
  | some sorted =>
    let (rounds, mx, status, o, st) := play c sorted sched (stepFrom c sorted (St.init (fun _ => .idle))) [] #[] 0
    let truth := match st with
      | some st => Json.arr (c.allCks.map (fun k => Json.arr #[toJson k, Json.str (truthName (st.w k))])).toArray
      | none => Json.null
    let fut := match st with | some st => natsJ st.futured | none => Json.null
    let tbl := match st with | some st => tablesJ c.wf.g.nodes st.ns | none => Json.null
    let outs := match st with
      | some st => Json.arr (c.wf.g.nodes.map (fun n => natsJ (outputs c.wf st n))).toArray
      | none => Json.null
    return Json.mkObj ([("sorted", natsJ sorted), ("rounds", Json.arr rounds), ("status", Json.str status),
      ("truth", truth), ("maxlocked", toJson mx), ("futured", fut), ("final_tables", tbl), ("outputs", outs)]
      ++ (match o with | some o => outcomeJ o | none => []))

def handleSync (j : Json) : Except String Json := do
  let c ← parseCase j
  let fail ← natList (← j.getObjVal? "fail")
  match sortFrom c.wf.g [] with
  | none => return Json.mkObj [("sorted", Json.null), ("status", "cycle")]
  | some sorted =>
    let fuel := 4 * (c.wf.g.nodes.length + c.allCks.length) + 10
    let (o, st) := runSync c.wf c.k sorted (fun x => fail.contains x) fuel
    let (oc, extra) : String × List (String × Json) := match o with
      | .success => ("success", [])
      | .raised x => ("raised", [("raised", toJson x)])
      | .outOfFuel => ("outOfFuel", [])
    return Json.mkObj ([("sorted", natsJ sorted), ("outcome", Json.str oc), ("ran", natsJ st.futured),
      ("tables", tablesJ c.wf.g.nodes st.ns),
      ("outputs", Json.arr (c.wf.g.nodes.map (fun n => natsJ (outputs c.wf st n))).toArray)] ++ extra)

def handle (j : Json) : Json :=
  let r : Except String Json := do
    match (← getStr j "op") with
    | "async" => handleAsync j
    | "sync" => handleSync j
    | op => throw s!"bad-op {op}"
  match r with
  | .ok v => v
  | .error e => err e

def main : IO Unit := run handle
