import PydraModel.DriverUtil
import PydraModel.Sched.Model
import PydraModel.Sched.Rerun
/-
JSON-lines driver of the `Sched` model.

  {"op": "async", "nodes": [0,1,..], "edges": [[a,b],..], "jobs": [[ck,..] per node, in `nodes` order],
   "k": null | n, "old": false,                  -- old = dispatch rule before the D11 repair (documentation only)
   "schedule": [[["acq",c] | ["ok",c] | ["err",c] | ["done",c] | ["van",c], ...], ...]}
  -> {"sorted": [..] | null, "rounds": [{"tasks": [[n,i]..], "pending": [..], "dispatched": [..], "tables": {..}}, ..],
      "status": "cont" | "done" | "bad", "outcome": .., "named": [..], "truth": [[ck, "ok"], ..], "maxlocked": n,
      "futured": [..]}
  {"op": "sync", ..., "fail": [ck, ..]} -> {"outcome": .., "ran": [..], "tables": {..}}

Submissions over pre-existing results (`Sched/Rerun.lean`).  Jobs are named [node, index]; the checksum of a job is
computed from the node, the index and the VALUES the node read when it started (value = 2*checksum + generation):
  {"op": "rerun", "mode": "async" | "sync", "nodes", "edges", "sizes": [jobs per node], "k", "rerun": bool, "ro": bool,
   "pre_fail": [[n,i]..],          -- first submission (complete, any worker that goes on after a failure): these bodies raise
   "fail": [[n,i]..], "schedule": [[["acq",n,i] | ["fin",n,i] | ["done",n,i], ...], ...]}
  -> rounds as above with jobs as [n,i]; "began": [[n,i]..], "fresh": {node: [bool per job]},
     "consistent": {node: bool}   -- the node's jobs are the ones its predecessors' FINAL values give
-/
open Lean PydraModel PydraModel.Graph PydraModel.Sched PydraModel.DriverUtil

def natList (j : Json) : Except String (List Nat) := do
  (← j.getArr?).toList.mapM (fun x => x.getNat?)

def edgeList (j : Json) : Except String (List (Nat × Nat)) := do
  (← j.getArr?).toList.mapM (fun x => do
    let a ← x.getArr?
    if a.size != 2 then throw "edge" else return ((← a[0]!.getNat?), (← a[1]!.getNat?)))

def evOfJson (j : Json) : Except String Ev := do
  let a ← j.getArr?
  if a.size != 2 then throw "move" else
  let c ← a[1]!.getNat?
  match (← a[0]!.getStr?) with
  | "acq" => return .acquire c
  | "ok" => return .finishOk c
  | "err" => return .finishErr c
  | "done" => return .complete c
  | "van" => return .vanish c
  | s => throw s!"bad-move {s}"

def natsJ (l : List Nat) : Json := Json.arr (l.map (fun n => toJson n)).toArray

def truthName : Truth → String
  | .idle => "idle" | .locked => "locked" | .dead => "dead" | .ok => "ok" | .err => "err"

def nsJ (s : NS) : Json := Json.mkObj [
  ("blocked", match s.blk with | none => Json.null | some b => natsJ b),
  ("queued", natsJ s.queued), ("running", natsJ s.running),
  ("successful", natsJ (s.successful.toArray.qsort (· < ·)).toList),
  ("errored", natsJ (s.errored.toArray.qsort (· < ·)).toList),
  ("unrunnable", Json.bool s.unrunnable)]

def tablesJ (nodes : List Nat) (ns : NSMap) : Json :=
  Json.mkObj (nodes.map (fun n => (toString n, nsJ (ns.get n))))

def jobsJ (l : List Job) : Json := Json.arr (l.map (fun j => natsJ [j.1, j.2])).toArray

structure Case where
  wf : Wf
  k : Option Nat
  allCks : List Nat
  old : Bool

def parseCase (j : Json) : Except String Case := do
  let nodes ← natList (← j.getObjVal? "nodes")
  let edges ← edgeList (← j.getObjVal? "edges")
  let jobsArr ← (← getArr j "jobs").toList.mapM natList
  if jobsArr.length != nodes.length then throw "jobs/nodes length" else
  let tbl := nodes.zip jobsArr
  let k ← match j.getObjVal? "k" with
    | .ok Json.null => pure none
    | .ok v => do pure (some (← v.getNat?))
    | .error _ => throw "k missing"
  let old := match j.getObjVal? "old" with | .ok (Json.bool b) => b | _ => false
  let g : G := ⟨nodes, edges, [], none⟩
  let mk : NodeId → List (List Val) → List Ck := fun n _ => (tbl.lookup n).getD []
  return ⟨⟨g, mk, fun c => c⟩, k, (jobsArr.flatten).eraseDups, old⟩

def countLocked (cks : List Nat) (w : World) : Nat := (cks.filter (fun c => w c == .locked)).length

/-- apply moves one by one, tracking the maximal number of simultaneously executing bodies -/
def applyTrack (cks : List Nat) : St → List Ev → Nat → Option (St × Nat)
  | st, [], m => some (st, m)
  | st, e :: es, m => match applyEv st e with
    | some st' => applyTrack cks st' es (max m (countLocked cks st'.w))
    | none => none

def snapshot (c : Case) (prevFutured : List Ck) (st : St) : Json := Json.mkObj [
  ("tasks", jobsJ st.tasks), ("pending", natsJ st.futures),
  ("dispatched", natsJ (st.futured.drop prevFutured.length)),
  ("tables", tablesJ c.wf.g.nodes st.ns)]

def stepFrom (c : Case) (sorted : List NodeId) (st : St) : Step :=
  if c.old then afterPollOld c.wf c.k sorted (doPoll c.wf c.k sorted st)
  else afterPoll c.wf c.k sorted (doPoll c.wf c.k sorted st)

def outcomeJ : Outcome → List (String × Json)
  | .success => [("outcome", "success"), ("named", natsJ [])]
  | .failed l => [("outcome", "failed"), ("named", natsJ l)]
  | .failedNodes l => [("outcome", "failedNodes"), ("named", natsJ l)]
  | .stall => [("outcome", "stall"), ("named", natsJ [])]

def play (c : Case) (sorted : List NodeId) : List (List Ev) → Step → List Ck → Array Json → Nat →
    Array Json × Nat × String × Option Outcome × Option St
  | _, .bad, _, acc, mx => (acc, mx, "bad", none, none)
  | _, .done o st, _, acc, mx => (acc, mx, "done", some o, some st)
  | [], .cont st, prevFutured, acc, mx => (acc.push (snapshot c prevFutured st), mx, "cont", none, some st)
  | mv :: rest, .cont st, prevFutured, acc, mx =>
    let acc := acc.push (snapshot c prevFutured st)
    if st.futures.isEmpty && !mv.isEmpty then (acc, mx, "bad", none, some st) else
    match applyTrack c.allCks st mv mx with
    | none => (acc, mx, "bad", none, some st)
    | some (st1, mx') =>
      if !st.futures.isEmpty && st1.futures.length == st.futures.length then (acc, mx', "bad", none, some st1) else
      play c sorted rest (stepFrom c sorted st1) st.futured acc mx'

def handleAsync (j : Json) : Except String Json := do
  let c ← parseCase j
  let sched ← (← getArr j "schedule").toList.mapM (fun r => do (← r.getArr?).toList.mapM evOfJson)
  match sortFrom c.wf.g [] with
  | none => return Json.mkObj [("sorted", Json.null), ("status", "cycle")]
  | some sorted =>
    let (rounds, mx, status, o, st) := play c sorted sched (stepFrom c sorted (St.init (fun _ => .idle))) [] #[] 0
    let truth := match st with
      | some st => Json.arr (c.allCks.map (fun k => Json.arr #[toJson k, Json.str (truthName (st.w k))])).toArray
      | none => Json.null
    let fut := match st with | some st => natsJ st.futured | none => Json.null
    let tbl := match st with | some st => tablesJ c.wf.g.nodes st.ns | none => Json.null
    let outs := match st with
      | some st => Json.arr (c.wf.g.nodes.map (fun n => natsJ (outputs c.wf st n))).toArray
      | none => Json.null
    return Json.mkObj ([("sorted", natsJ sorted), ("rounds", Json.arr rounds), ("status", Json.str status),
      ("truth", truth), ("maxlocked", toJson mx), ("futured", fut), ("final_tables", tbl), ("outputs", outs)]
      ++ (match o with | some o => outcomeJ o | none => []))

def handleSync (j : Json) : Except String Json := do
  let c ← parseCase j
  let fail ← natList (← j.getObjVal? "fail")
  match sortFrom c.wf.g [] with
  | none => return Json.mkObj [("sorted", Json.null), ("status", "cycle")]
  | some sorted =>
    let fuel := 4 * (c.wf.g.nodes.length + c.allCks.length) + 10
    let (o, st) := runSync c.wf c.k sorted (fun x => fail.contains x) fuel
    let (oc, extra) : String × List (String × Json) := match o with
      | .success => ("success", [])
      | .raised x => ("raised", [("raised", toJson x)])
      | .outOfFuel => ("outOfFuel", [])
    return Json.mkObj ([("sorted", natsJ sorted), ("outcome", Json.str oc), ("ran", natsJ st.futured),
      ("tables", tablesJ c.wf.g.nodes st.ns),
      ("outputs", Json.arr (c.wf.g.nodes.map (fun n => natsJ (outputs c.wf st n))).toArray)] ++ extra)

/-! ### pre-existing results -/

/-- self-delimiting code of a number: (bits, length in bits) -/
def codeNat (x : Nat) : Nat × Nat :=
  let l := x.log2 + 1
  let ll := l.log2 + 1
  -- unary(ll) 0 bin(l, ll bits) bin(x, l bits)
  let pre := ((1 <<< ll) - 1) <<< 1
  (((pre <<< ll) ||| l) <<< l ||| x, ll + 1 + ll + l)

def catNats (l : List Nat) : Nat :=
  (l.foldl (fun (acc : Nat × Nat) x => let c := codeNat x; ((acc.1 <<< c.2) ||| c.1, acc.2 + c.2)) (1, 1)).1

/-- checksum of job `i` of node `n` started on the input values `ins`; node and index stay readable -/
def jobCk (n i : Nat) (ins : List (List Val)) : Ck :=
  catNats (ins.map (fun l => catNats l)) * 4096 + n * 64 + i

def jobOfCk (c : Ck) : Nat × Nat := ((c % 4096) / 64, c % 64)

structure RCase where
  wf1 : Wf
  wf2 : Wf
  k : Option Nat
  cfg0 : RCfg
  ro : Bool
  fail1 : Ck → Bool
  fail2 : Ck → Bool

def pairList (j : Json) : Except String (List (Nat × Nat)) := do
  (← j.getArr?).toList.mapM (fun x => do
    let a ← x.getArr?
    if a.size != 2 then throw "pair" else return ((← a[0]!.getNat?), (← a[1]!.getNat?)))

def parseRCase (j : Json) : Except String RCase := do
  let nodes ← natList (← j.getObjVal? "nodes")
  let edges ← edgeList (← j.getObjVal? "edges")
  let sizes ← natList (← j.getObjVal? "sizes")
  if sizes.length != nodes.length then throw "sizes/nodes length" else
  let tbl := nodes.zip sizes
  let k ← match j.getObjVal? "k" with
    | .ok Json.null => pure none
    | .ok v => do pure (some (← v.getNat?))
    | .error _ => throw "k missing"
  let rerun := match j.getObjVal? "rerun" with | .ok (Json.bool b) => b | _ => false
  let ro := match j.getObjVal? "ro" with | .ok (Json.bool b) => b | _ => false
  let f1 ← pairList (← j.getObjVal? "pre_fail")
  let f2 ← pairList (← j.getObjVal? "fail")
  let g : G := ⟨nodes, edges, [], none⟩
  let mk : NodeId → List (List Val) → List Ck := fun n ins =>
    (List.range ((tbl.lookup n).getD 0)).map (fun i => jobCk n i ins)
  return ⟨⟨g, mk, fun c => 2 * c⟩, ⟨g, mk, fun c => 2 * c + 1⟩, k, ⟨rerun, fun _ => .idle, fun c => 2 * c⟩, ro,
    fun c => f1.contains (jobOfCk c), fun c => f2.contains (jobOfCk c)⟩

def findJob (nodes : List Nat) (ns : NSMap) (c : Ck) : Json :=
  match nodes.find? (fun n => (ns.get n).cks.contains c) with
  | some n => natsJ [n, (ns.get n).cks.idxOf c]
  | none => natsJ [(jobOfCk c).1, (jobOfCk c).2]

def evOfJsonR (st : St) (j : Json) : Except String Ev := do
  let a ← j.getArr?
  if a.size != 3 then throw "move" else
  let c := ckOf st ((← a[1]!.getNat?), (← a[2]!.getNat?))
  match (← a[0]!.getStr?) with
  | "acq" => return .acquire c
  | "ok" => return .finishOk c
  | "err" => return .finishErr c
  | "done" => return .complete c
  | s => throw s!"bad-move {s}"

def applyTrackR (cfg : RCfg) : RSt → List Json → Nat → Except String (Option (RSt × Nat))
  | r, [], m => return some (r, m)
  | r, e :: es, m => do
    let ev ← evOfJsonR r.st e
    match applyEvR cfg r ev with
    | some r' => applyTrackR cfg r' es (max m (executingR r').length)
    | none => return none

def snapshotR (nodes : List Nat) (prevFutured : List Ck) (st : St) : Json := Json.mkObj [
  ("tasks", jobsJ st.tasks), ("pending", Json.arr (st.futures.map (findJob nodes st.ns)).toArray),
  ("dispatched", Json.arr ((st.futured.drop prevFutured.length).map (findJob nodes st.ns)).toArray),
  ("tables", tablesJ nodes st.ns)]

def playR (c : RCase) (cfg : RCfg) (sorted : List NodeId) : List (List Json) → RStep → List Ck → Array Json → Nat →
    Except String (Array Json × Nat × String × Option Outcome × Option RSt)
  | _, .bad, _, acc, mx => return (acc, mx, "bad", none, none)
  | _, .done o r, _, acc, mx => return (acc, mx, "done", some o, some r)
  | _, .crash r, _, acc, mx => return (acc, mx, "crash", none, some r)
  | [], .cont r, prev, acc, mx => return (acc.push (snapshotR c.wf2.g.nodes prev r.st), mx, "cont", none, some r)
  | mv :: rest, .cont r, prev, acc, mx => do
    let acc := acc.push (snapshotR c.wf2.g.nodes prev r.st)
    if r.st.futures.isEmpty && !mv.isEmpty then return (acc, mx, "bad", none, some r) else
    match (← applyTrackR cfg r mv mx) with
    | none => return (acc, mx, "bad", none, some r)
    | some (r1, mx') =>
      if !r.st.futures.isEmpty && r1.st.futures.length == r.st.futures.length then return (acc, mx', "bad", none, some r1) else
      playR c cfg sorted rest (pollStepR c.wf2 c.k sorted cfg r1) r.st.futured acc mx'

def finalJ (c : RCase) (cfg : RCfg) (r : RSt) : List (String × Json) :=
  let nodes := c.wf2.g.nodes
  let wfd := diskWf c.wf2 cfg r.ended
  [("began", Json.arr (r.began.map (findJob nodes r.st.ns)).toArray),
   ("final_tables", tablesJ nodes r.st.ns),
   ("fresh", Json.mkObj (nodes.map (fun n => (toString n,
      Json.arr ((r.st.ns.get n).cks.map (fun x => Json.bool (r.ended.contains x))).toArray)))),
   ("consistent", Json.mkObj (nodes.map (fun n => (toString n,
      Json.bool ((r.st.ns.get n).blk.isNone || (r.st.ns.get n).unrunnable ||
        (r.st.ns.get n).cks == c.wf2.mkJobs n (inputsOf wfd r.st.ns n))))))]

/-- the cache a complete first submission leaves behind: every job of every node that is not downstream of a failed
    job has a result (`C14_full`) -/
def firstPass (wf : Wf) (fail : Ck → Bool) : List NodeId → List (NodeId × List Ck × Bool) → List (Ck × Truth) →
    List (Ck × Truth)
  | [], _, acc => acc
  | n :: rest, seenN, acc =>
    let ps := wf.preds n
    let ready := ps.all (fun p => match seenN.lookup p with | some (_, ok) => ok | none => false)
    if !ready then firstPass wf fail rest ((n, [], false) :: seenN) acc else
    let ins := ps.map (fun p => match seenN.lookup p with | some (cks, _) => cks.map wf.body | none => [])
    let cks := wf.mkJobs n ins
    firstPass wf fail rest ((n, cks, cks.all (fun c => !fail c)) :: seenN)
      (acc ++ cks.map (fun c => (c, if fail c then Truth.err else Truth.ok)))

def outcomeRJ (nodes : List Nat) (ns : NSMap) : Outcome → List (String × Json)
  | .failed l => [("outcome", "failed"), ("named", Json.arr (l.map (findJob nodes ns)).toArray)]
  | o => outcomeJ o

def handleRerun (j : Json) : Except String Json := do
  let c ← parseRCase j
  let mode ← getStr j "mode"
  match sortFrom c.wf2.g [] with
  | none => return Json.mkObj [("sorted", Json.null), ("status", "cycle")]
  | some sorted =>
    let fuel := 40 * (c.wf2.g.nodes.length + 10)
    let tbl := firstPass c.wf1 c.fail1 sorted [] []
    let w1 : World := fun x => (tbl.lookup x).getD .idle
    let cfg : RCfg := if c.ro then { c.cfg0 with ro := w1 } else c.cfg0
    let w0 : World := if c.ro then fun _ => .idle else w1
    let first : String := if tbl.any (fun x => x.2 == Truth.err) then "failed" else "success"
    if mode == "sync" then
      let (o, r) := runSyncR c.wf2 c.k sorted cfg w0 c.fail2 fuel
      let bad := c.wf2.g.nodes.filter (fun n => !(r.st.ns.get n).errored.isEmpty)
      let (oc, extra) : String × List (String × Json) := match o with
        | .success => if bad.isEmpty then ("success", []) else ("failedNodes", [("named", natsJ bad)])
        | .raised x => ("raised", [("raised", findJob c.wf2.g.nodes r.st.ns x)])
        | .outOfFuel => ("outOfFuel", [])
      return Json.mkObj ([("sorted", natsJ sorted), ("first", Json.str first), ("outcome", Json.str oc)] ++ extra ++ finalJ c cfg r)
    else
      let sched ← (← getArr j "schedule").toList.mapM (fun r => do pure (← r.getArr?).toList)
      let (rounds, mx, status, o, r) ← playR c cfg sorted sched (pollStepR c.wf2 c.k sorted cfg (RSt.init w0)) [] #[] 0
      let fin := match r with | some r => finalJ c cfg r | none => []
      return Json.mkObj ([("sorted", natsJ sorted), ("first", Json.str first), ("rounds", Json.arr rounds),
        ("status", Json.str status), ("maxlocked", toJson mx)] ++ fin ++
        (match o, r with | some o, some r => outcomeRJ c.wf2.g.nodes r.st.ns o | _, _ => []))

def handle (j : Json) : Json :=
  let r : Except String Json := do
    match (← getStr j "op") with
    | "async" => handleAsync j
    | "sync" => handleSync j
    | "rerun" => handleRerun j
    | op => throw s!"bad-op {op}"
  match r with
  | .ok v => v
  | .error e => err e

def main : IO Unit := run handle
