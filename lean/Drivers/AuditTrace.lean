import PydraModel.DriverUtil
import PydraModel.JobProto.AuditTrace
/-
JSON-lines driver of the C36 model.

  in : {"shared": bool, "resource": bool,
        "forest": [{"label": n, "errored": bool, "sync": bool, "kids": [ … ]}, …]}
  out: {"trace": [["start", aid] | ["task", aid, label] | ["monStart", mid, aid] | ["monEnd", mid, aid]
                  | ["runtime", eid, aid] | ["generation", eid, mid] | ["end", aid, errored], …],
        "jobs": [[aid, label, errored], …]}
-/
open Lean PydraModel PydraModel.DriverUtil PydraModel.JobProto.Audit

partial def forestOf (js : List Json) : Except String Forest :=
  match js with
  | [] => .ok .nil
  | j :: rest => do
    let label ← (← j.getObjVal? "label").getNat?
    let errored ← (← j.getObjVal? "errored").getBool?
    let sync ← (← j.getObjVal? "sync").getBool?
    let kids ← forestOf (← (← j.getObjVal? "kids").getArr?).toList
    let r ← forestOf rest
    return .node ⟨label, errored, sync⟩ kids r

def msgJ : Msg → Json
  | .start a => Json.arr #[Json.str "start", toJson a]
  | .task a l => Json.arr #[Json.str "task", toJson a, toJson l]
  | .monStart m a => Json.arr #[Json.str "monStart", toJson m, toJson a]
  | .monEnd m a => Json.arr #[Json.str "monEnd", toJson m, toJson a]
  | .runtime e a => Json.arr #[Json.str "runtime", toJson e, toJson a]
  | .generation e m => Json.arr #[Json.str "generation", toJson e, toJson m]
  | .end_ a e => Json.arr #[Json.str "end", toJson a, toJson e]

def handle (j : Json) : Json :=
  match (do
    let shared ← (← j.getObjVal? "shared").getBool?
    let res ← (← j.getObjVal? "resource").getBool?
    let f ← forestOf (← getArr j "forest").toList
    return Json.mkObj [
      ("trace", Json.arr ((trace shared res f 0).map msgJ).toArray),
      ("jobs", Json.arr ((jobs res f 0).map (fun p => Json.arr #[toJson p.1, toJson p.2.label, toJson p.2.errored])).toArray)]
    : Except String Json) with
  | .ok v => v
  | .error e => err e

def main : IO Unit := run handle
