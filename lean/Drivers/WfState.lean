import PydraModel.DriverUtil
import PydraModel.WfState.Spec
import PydraModel.WfState.Model
import PydraModel.WfState.Class
import PydraModel.WfState.Simple
import PydraModel.WfState.Rerun
open Lean PydraModel PydraModel.DriverUtil PydraModel.WfState

/-! JSON-lines driver for engine `WfState` (C03).  Input: the harness' workflow case (see harness/engines/wfstate.py);
output: `{"spec": …, "model": …, "model2": … (second run on the same objects), "cls": …}`. -/

partial def valOfJson (j : Json) : Except String Val :=
  match j with
  | .null => .ok .null
  | .str s => .ok (.str s)
  | .num n => if n.exponent == 0 then .ok (.int n.mantissa) else .error "non-integer number"
  | .arr a => do return .list (← a.toList.mapM valOfJson)
  | _ => .error "unsupported value"

partial def valToJson (names : Array String) : Val → Json
  | .null => .null
  | .int i => Json.num (JsonNumber.fromInt i)
  | .str s => .str s
  | .tag n => .str (names.getD n s!"?{n}")
  | .list l => .arr (l.map (valToJson names)).toArray

def fldOfStr : String → Except String Fld
  | "x" => .ok .x | "y" => .ok .y | "z" => .ok .z | "u" => .ok .u | "v" => .ok .v
  | s => .error s!"bad-field {s}"

def nameIdx (names : Array String) (s : String) : Except String Nat :=
  match names.toList.idxOf? s with
  | some i => .ok i
  | none => .error s!"unknown-node {s}"

def keyOfStr (names : Array String) (s : String) : Except String Key := do
  match s.splitOn "." with
  | [n, f] => return (← nameIdx names n, ← fldOfStr f)
  | _ => throw s!"bad-key {s}"

def srcOfJson (names : Array String) (j : Json) : Except String Src := do
  if let .ok n := j.getObjValAs? String "n" then return .up (← nameIdx names n)
  if let .ok l := j.getObjValAs? (Array Json) "l" then return .lst (← l.toList.mapM valOfJson)
  if let .ok c := j.getObjVal? "c" then return .const (← valOfJson c)
  throw "bad-src"

def splitOfJson (j : Json) : Except String Split := do
  match j with
  | .null => return .no
  | .arr a =>
    match a.toList with
    | [.str f] => return .single (← fldOfStr f)
    | [.str "outer", .str f, .str g] => return .outer (← fldOfStr f) (← fldOfStr g)
    | [.str "inner", .str f, .str g] => return .inner (← fldOfStr f) (← fldOfStr g)
    | _ => throw "bad-split"
  | _ => throw "bad-split"

def nodeOfJson (names : Array String) (j : Json) : Except String Node := do
  let name ← nameIdx names (← getStr j "name")
  let ins ← j.getObjVal? "in"
  let src (f : String) : Except String Src :=
    match ins.getObjVal? f with
    | .ok s => srcOfJson names s
    | .error _ => .ok .none
  let split ← match j.getObjVal? "split" with
    | .ok s => splitOfJson s
    | .error _ => .ok .no
  let comb ← match j.getObjValAs? (Array String) "combine" with
    | .ok a => a.toList.mapM (keyOfStr names)
    | .error _ => .ok []
  -- a split field must be a literal list
  let nested := (j.getObjValAs? Bool "wf").toOption.getD false
  -- `State.current_combiner`: `self.name in comb` is a SUBSTRING test on the dotted key
  let nameStr ← getStr j "name"
  let combStrs := ((j.getObjValAs? (Array String) "combine").toOption.getD #[]).toList
  let own := (combStrs.zip comb).filterMap fun (cs, k) =>
    if (cs.splitOn nameStr).length > 1 then some k else none
  let nd : Node := { name := name, x := ← src "x", y := ← src "y", z := ← src "z", u := ← src "u", v := ← src "v", split := split, comb := comb,
                     nested := nested, ownCombOverride := some own }
  for f in split.fields do
    match nd.src f with
    | .lst _ => pure ()
    | _ => throw "split-field-not-a-list"
  return nd

def wfOfJson (j : Json) : Except String (Wf × Array String) := do
  let nodes ← getArr j "nodes"
  let names ← nodes.mapM fun n => getStr n "name"
  if names.toList.eraseDups.length != names.size then throw "duplicate-node-name"
  let nds ← nodes.toList.mapM (nodeOfJson names)
  -- nodes may only refer to earlier nodes
  let mut i := 0
  for nd in nds do
    for (_, u) in nd.lazyUps do
      if u ≥ i then throw "forward-reference"
    i := i + 1
  let outs ← (← j.getObjValAs? (Array String) "out").toList.mapM (nameIdx names)
  return ({ nodes := nds, outs := outs }, names)

def jobsJson (names : Array String) (jobs : List (Nat × Nat)) : Json :=
  Json.mkObj (jobs.map fun (n, c) => (names.getD n "?", Json.num (JsonNumber.fromNat c)))

def jobOutsJson (names : Array String) (jo : List (Nat × List Val)) : Json :=
  Json.mkObj (jo.map fun (n, vs) => (names.getD n "?", Json.arr (vs.map (valToJson names)).toArray))

def crashName : Model.Crash → String
  | .typeError => "TypeError" | .valueError => "ValueError" | .attributeError => "AttributeError"
  | .keyError => "KeyError" | .indexError => "IndexError" | .pydraStateError => "PydraStateError"
  | .assertionError => "AssertionError"

def handle (j : Json) : Json :=
  match wfOfJson j with
  | .error e => err e
  | .ok (w, names) =>
    let spec := match Spec.run w with
      | .ok r => Json.mkObj [("out", .arr (r.outs.map (valToJson names)).toArray), ("jobs", jobsJson names r.jobs),
                             ("jobouts", jobOutsJson names r.jobOuts)]
      | .error e => Json.mkObj [("error", .str e)]
    let modelJson (r : Model.M Model.Result) : Json := match r with
      | .ok r => Json.mkObj [("out", .arr (r.outs.map (valToJson names)).toArray), ("jobs", jobsJson names r.jobs),
                             ("jobouts", jobOutsJson names r.jobOuts)]
      | .error (.crash c) => Json.mkObj [("error", .str (crashName c))]
      | .error (.unmodelled why) => Json.mkObj [("unmodelled", .str why)]
      | .error (.malformed why) => Json.mkObj [("malformed", .str why)]
    let model := modelJson (Model.run w)
    -- a second run over the same node/state objects (only meaningful when the first one succeeded)
    let model2 := match Model.runTwice w with
      | .ok (_, r2) => modelJson r2
      | .error _ => Json.null
    Json.mkObj [("spec", spec), ("model", model), ("model2", model2), ("cls", (Class.toJson w).setObjVal! "simple" (Simple.simple w))]

def main : IO Unit := run handle
