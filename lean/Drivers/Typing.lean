import PydraModel.DriverUtil
import PydraModel.Typing.Model
import PydraModel.Typing.Defects
import PydraModel.Typing.Static2
import PydraModel.Typing.IdemU
open Lean PydraModel PydraModel.Typing PydraModel.DriverUtil

/-
JSON-lines driver of engine `Typing`.
  type  : ["c", name] | ["any"] | ["u", [T..]] | ["g", origin, [T..]] | ["tv", T]
  value : ["a", cls, payload] | ["s", cls, [V..]] | ["m", cls, [K..], [V..]]     payload: null | int | "str" | [bytes]
  ops   : coerce {sac, t, v}   check {T, S}   conforms {t, v}
Anything that does not parse is answered with {"error": ...}.
-/

def clsOfName (s : String) : Except String Cls :=
  match Cls.all.find? (fun c => c.name == s) with
  | some c => .ok c
  | none => .error s!"unknown class {s}"

partial def tyOfJson (j : Json) : Except String Ty := do
  let a ← j.getArr?
  if a.size == 0 then throw "empty type"
  let k ← a[0]!.getStr?
  match k, a.size with
  | "c", 2 => return .cls (← clsOfName (← a[1]!.getStr?))
  | "any", 1 => return .any
  | "u", 2 => return .union (← (← a[1]!.getArr?).toList.mapM tyOfJson)
  | "g", 3 => return .gen (← clsOfName (← a[1]!.getStr?)) (← (← a[2]!.getArr?).toList.mapM tyOfJson)
  | "tv", 2 => return .tupleVar (← tyOfJson a[1]!)
  | _, _ => throw s!"bad type {j.compress}"

def payloadOfJson (j : Json) : Except String Payload :=
  match j with
  | .null => .ok .unit
  | .str s => .ok (.str s.toList)
  | .num _ => do
      let i ← j.getInt?
      return .int i
  | .arr a => do
      let bs ← a.toList.mapM (fun x => x.getNat?)
      if bs.all (· < 256) then return .bytes bs else throw "byte out of range"
  | _ => .error s!"bad payload {j.compress}"

partial def valOfJson (j : Json) : Except String V := do
  let a ← j.getArr?
  if a.size == 0 then throw "empty value"
  let k ← a[0]!.getStr?
  match k, a.size with
  | "a", 3 => return .atom (← clsOfName (← a[1]!.getStr?)) (← payloadOfJson a[2]!)
  | "s", 3 => return .seq (← clsOfName (← a[1]!.getStr?)) (← (← a[2]!.getArr?).toList.mapM valOfJson)
  | "m", 4 =>
      let ks ← (← a[2]!.getArr?).toList.mapM valOfJson
      let vs ← (← a[3]!.getArr?).toList.mapM valOfJson
      if ks.length != vs.length then throw "map: key/value length mismatch"
      return .map (← clsOfName (← a[1]!.getStr?)) ks vs
  | _, _ => throw s!"bad value {j.compress}"

def payloadToJson : Payload → Json
  | .unit => .null
  | .int i => toJson i
  | .str s => .str (String.ofList s)
  | .bytes b => .arr (b.map (fun n => toJson n)).toArray

partial def valToJson : V → Json
  | .atom c p => .arr #[.str "a", .str c.name, payloadToJson p]
  | .seq c l => .arr #[.str "s", .str c.name, .arr (l.map valToJson).toArray]
  | .map c ks vs => .arr #[.str "m", .str c.name, .arr (ks.map valToJson).toArray, .arr (vs.map valToJson).toArray]

def errTag : Err → String
  | .type _ => "TypeError"
  | .value => "ValueError"
  | .assertion => "AssertionError"
  | .other n => n

def resToJson : R V → Json
  | .ok v => .arr #[.str "ok", valToJson v]
  | .error e => .arr #[.str "err", .str (errTag e), .bool e.arity]

def getBool (j : Json) (k : String) : Except String Bool := j.getObjValAs? Bool k

def handle (j : Json) : Json :=
  let r : Except String Json := do
    let op ← getStr j "op"
    match op with
    | "coerce" =>
      let sac ← getBool j "sac"
      let cfg : Cfg := { sac := sac }
      let t ← tyOfJson (← j.getObjVal? "t")
      let v ← valOfJson (← j.getObjVal? "v")
      if !t.wf then throw "type not well-formed (origin/arity)"
      if !v.wf then throw "value not well-formed (class/payload)"
      let r := coerce cfg t v
      let (conf, again) : Bool × Json :=
        match r with
        | .ok v' => (conforms t v', resToJson (coerce cfg t v'))
        | .error _ => (false, .null)
      return Json.mkObj [("r", resToJson r), ("conf", .bool conf), ("again", again),
                         ("d13", .bool (d13 t v)), ("d13b", .bool (d13b t v)), ("bytesExp", .bool (bytesAtGen t v)),
                         ("d13u", .bool (d13u sac t v))]
    | "assign" =>
      let t ← tyOfJson (← j.getObjVal? "t")
      let v ← valOfJson (← j.getObjVal? "v")
      if !t.wf then throw "type not well-formed (origin/arity)"
      if !v.wf then throw "value not well-formed (class/payload)"
      return Json.mkObj [("r", resToJson (assignField t v))]
    | "hyp21" =>
      -- do the hypotheses of C21_partial_hashTyItems / C21_partial_seqPatterns hold for this (T, S, v)?
      let T ← tyOfJson (← j.getObjVal? "T")
      let S ← tyOfJson (← j.getObjVal? "S")
      let v ← valOfJson (← j.getObjVal? "v")
      return Json.mkObj [("seqPat", .bool T.seqPat), ("wf", .bool (T.wf && S.wf)), ("anyFree", .bool S.anyFree),
                         ("std", .bool v.std), ("strict", .bool (strictAtoms S v)),
                         ("ex21", .bool (ex21 fieldParserSac T v)), ("ex21x", .bool (ex21x fieldParserSac T v)),
                         ("conf", .bool (conforms S v))]
    | "check" =>
      let T ← tyOfJson (← j.getObjVal? "T")
      let S ← tyOfJson (← j.getObjVal? "S")
      if !T.wf || !S.wf then throw "type not well-formed (origin/arity)"
      return Json.mkObj [("r", match checkType T S with
                                | .ok _ => .arr #[.str "ok"]
                                | .error e => .arr #[.str "err", .str (errTag e)])]
    | "conforms" =>
      let t ← tyOfJson (← j.getObjVal? "t")
      let v ← valOfJson (← j.getObjVal? "v")
      return Json.mkObj [("conf", .bool (conforms t v))]
    | _ => throw s!"bad-op {op}"
  match r with
  | .ok v => v
  | .error e => err e

def main : IO Unit := run handle
