import PydraModel.DriverUtil
import PydraModel.FileHash.Model
open Lean PydraModel PydraModel.FileHash PydraModel.DriverUtil

def natsOfJson (j : Json) : Except String (List Nat) := do
  (← j.getArr?).toList.mapM (·.getNat?)

def keyOfJson (j : Json) : Except String Key := do
  let a ← j.getArr?
  if a.size != 3 then throw "key: want [cls,[paths],[mtimes]]" else
  let ps ← natsOfJson a[1]!
  let ms ← natsOfJson a[2]!
  if ps.length != ms.length then throw "key: paths and mtimes differ in length" else
  return ⟨← a[0]!.getNat?, ps, ms⟩

def getNats (j : Json) (k : String) : Except String (List Nat) := do
  let l ← natsOfJson (← j.getObjVal? k)
  -- the constructor sorts the members (`members`); the harness may hand them over in any order
  if l.isEmpty then throw s!"{k}: a file-set has at least one member" else return members l

def opOfJson (j : Json) : Except String Op := do
  let op ← getStr j "op"
  match op with
  | "write" => return .write (← getNat j "p") (← getNat j "c") (← getNat j "t")
  | "utime" => return .utime (← getNat j "p") (← getNat j "t")
  | "rename" => return .rename (← getNat j "p") (← getNat j "q")
  | "copy2" => return .copy2 (← getNat j "p") (← getNat j "q")
  | "hash" => return .hash (← getNat j "s") (← getNat j "cls") (← getNats j "ps")
  | "hashFresh" => return .hashFresh (← getNat j "cls") (← getNats j "ps")
  | "newProcess" => return .newProcess (← getNat j "s")
  | "cleanUp" => return .cleanUp (← (← getArr j "victims").toList.mapM keyOfJson)
  | _ => throw s!"bad-op {op}"

def outToJson : Option (List Content) → Json
  | none => Json.null
  | some v => toJson v

/-- sizes of the two caches after every operation (model-fidelity information only) -/
def sizes (st : State) : List Op → List (Nat × Nat)
  | [] => []
  | op :: ops => let st' := (step st op).1; (st'.disk.length, st'.mem.length) :: sizes st' ops

def handle (j : Json) : Json :=
  let r : Except String Json := do
    let ops ← (← getArr j "ops").toList.mapM opOfJson
    let fs := firstStale init ops 0
    return Json.mkObj [
      ("out", Json.arr ((run init ops).map outToJson).toArray),
      ("spec", Json.arr ((specRun FS.empty ops).map outToJson).toArray),
      ("fresh", Json.bool (freshFrom init ops)),
      ("first_stale", match fs with | none => Json.null | some i => toJson i),
      ("disk", Json.arr ((sizes init ops).map (fun p => toJson p.1)).toArray),
      ("mem", Json.arr ((sizes init ops).map (fun p => toJson p.2)).toArray)]
  match r with
  | .ok v => v
  | .error e => err e

def main : IO Unit := run handle
