import PydraModel.DriverUtil
import PydraModel.Files.Model
/-
JSON-lines driver of the `Files` engine (C33, C34).

request  {"op": "collect" | "stage", "dest": str, "supported": nat, "table": [[mountpoint, fstype]…], "get": "str"|"comp",
          "ex": [str…], "nextId": nat, "prim": "ref" | "script", "script": [resp…],
          "fields": [{"name": str, "value": tree, "ty": type, "truthy": bool, "mode": nat, "coll": nat}…]}
type     {"k":"file","n":str} | {"k":"atom","n":str} | {"k":"union","a":[type…]} | {"k":"map","a":[type,type]}
         | {"k":"seq","a":[type…],"ell":bool}
tree     {"t":"atom","v":str} | {"t":"file","oid":nat,"cls":str,"paths":[str…],"content":nat}
         | {"t":"list"|"tuple"|"dict","oid":nat,"c":[tree…]}          (dict: k1,v1,k2,v2,…)
resp     {"cls":str,"paths":[str…],"supported":nat,"clashes":[str…], "err":str}            the call raised
         {"cls":str,"paths":[str…],"supported":nat,"clashes":[str…], "out":[str…],"op":str} the call returned
answer   {"ok":true,"fields":[{"name","value"}…],"copies":[[{"src","dst","op"}…]…],"clashes":[…],"created":[…]}
         {"ok":false,"err":str}
Anything that cannot be parsed is answered with {"error": …}.
-/
open Lean PydraModel PydraModel.Files PydraModel.DriverUtil

def strOf (s : String) : Mount.Str := s.toList
def ofStr (s : Mount.Str) : Json := Json.str (String.ofList s)

def getStrs (j : Json) (k : String) : Except String (List Mount.Str) := do
  let a ← getArr j k
  a.toList.mapM (fun x => do return strOf (← x.getStr?))

def opOfString : String → Except String Op
  | "leave" => .ok .leave | "hard" => .ok .hard | "sym" => .ok .sym | "copy" => .ok .copy
  | s => .error s!"bad-op {s}"
def opToString : Op → String
  | .leave => "leave" | .hard => "hard" | .sym => "sym" | .copy => "copy"

partial def valOfJson (j : Json) : Except String Val := do
  let t ← getStr j "t"
  match t with
  | "atom" => return .atom (strOf (← getStr j "v"))
  | "file" =>
    return .file { oid := ← getNat j "oid", cls := strOf (← getStr j "cls"), paths := ← getStrs j "paths",
                   content := ← getNat j "content" }
  | "list" | "tuple" | "dict" =>
    let k : Kind := if t == "list" then .list else if t == "tuple" then .tuple else .dict
    let cs ← (← getArr j "c").toList.mapM valOfJson
    if k == .dict && cs.length % 2 != 0 then throw "dict-odd" else
    return .node (← getNat j "oid") k cs
  | _ => throw s!"bad-tree {t}"

def fileToJson (x : FileObj) : Json :=
  Json.mkObj [("t", "file"), ("oid", Json.num x.oid), ("cls", ofStr x.cls),
              ("paths", Json.arr (x.paths.map ofStr).toArray), ("content", Json.num x.content)]

partial def valToJson : Val → Json
  | .atom a => Json.mkObj [("t", "atom"), ("v", ofStr a)]
  | .file x => fileToJson x
  | .node _ k cs =>
    let t := match k with | .list => "list" | .tuple => "tuple" | .dict => "dict"
    Json.mkObj [("t", Json.str t), ("c", Json.arr (cs.map valToJson).toArray)]

def respOfJson (j : Json) : Except String Resp := do
  let key : Key := (strOf (← getStr j "cls"), ← getStrs j "paths")
  let sup := Mode.ofNat (← getNat j "supported")
  let cl ← getStrs j "clashes"
  match j.getObjVal? "err" with
  | .ok e => return ⟨key, sup, cl, .error (strOf (← e.getStr?))⟩
  | .error _ => return ⟨key, sup, cl, .ok (← getStrs j "out", ← opOfString (← getStr j "op"))⟩

partial def tyOfJson (j : Json) : Except String Ty := do
  let k ← getStr j "k"
  match k with
  | "file" => return .file (strOf (← getStr j "n"))
  | "atom" => return .atom (strOf (← getStr j "n"))
  | "union" => return .union (← (← getArr j "a").toList.mapM tyOfJson)
  | "map" =>
    let a ← (← getArr j "a").toList.mapM tyOfJson
    match a with
    | [kt, vt] => return .mapping kt vt
    | _ => throw "map-arity"
  | "seq" => return .seq (← (← getArr j "a").toList.mapM tyOfJson) (← j.getObjValAs? Bool "ell")
  | _ => throw s!"bad-type {k}"

def fieldOfJson (j : Json) : Except String Field := do
  return { name := strOf (← getStr j "name"), ty := ← tyOfJson (← j.getObjVal? "ty"),
           truthy := ← j.getObjValAs? Bool "truthy", mode := Mode.ofNat (← getNat j "mode"),
           coll := ← getNat j "coll", value := ← valOfJson (← j.getObjVal? "value") }

def entryToJson (e : Entry) : Json :=
  Json.mkObj [("src", fileToJson e.src), ("dst", fileToJson e.dst), ("op", Json.str (opToString e.op))]

def answer (ex0 : List Path) (r : Except Err Collected) : Json :=
  match r with
  | .error e => Json.mkObj [("ok", Json.bool false), ("err", ofStr e)]
  | .ok c =>
    Json.mkObj [("ok", Json.bool true),
      ("fields", Json.arr (c.fields.map (fun f => Json.mkObj [("name", ofStr f.1), ("value", valToJson f.2)])).toArray),
      ("copies", Json.arr (c.memos.map (fun m => Json.arr (m.map entryToJson).toArray)).toArray),
      ("clashes", Json.arr ((sortStrs c.clashes).map ofStr).toArray),
      ("created", Json.arr ((sortStrs (c.ex.filter (fun p => !(ex0.contains p)))).map ofStr).toArray)]

def handle (j : Json) : Json :=
  let r : Except String Json := do
    let op ← getStr j "op"
    let dest := strOf (← getStr j "dest")
    let sup := Mode.ofNat (← getNat j "supported")
    let tbl ← (← getArr j "table").toList.mapM (fun e => do
      let a ← e.getArr?
      if a.size != 2 then throw "entry" else
      return (strOf (← a[0]!.getStr?), strOf (← a[1]!.getStr?)))
    let get ← match (← getStr j "get") with
      | "str" => pure Mount.getMountStr
      | "comp" => pure Mount.getMountComp
      | g => throw s!"bad-get {g}"
    let ex ← getStrs j "ex"
    let n ← getNat j "nextId"
    let fields ← (← getArr j "fields").toList.mapM fieldOfJson
    let prim : Prim ← match (← getStr j "prim") with
      | "ref" => pure copyOneRef
      | "script" => do
        let sc ← (← getArr j "script").toList.mapM respOfJson
        pure (copyOneScript sc n)
      | p => throw s!"bad-prim {p}"
    match op with
    | "collect" =>
      return answer ex (copyfileWorkflow prim get tbl dest (fields.map (fun f => (f.name, f.value))) ex n)
    | "stage" => return answer ex (stageInputs prim get tbl dest sup fields ex n)
    | _ => throw s!"bad-op {op}"
  match r with
  | .ok v => v
  | .error e => err e

def main : IO Unit := run handle
