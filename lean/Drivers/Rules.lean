import PydraModel.DriverUtil
import PydraModel.Rules.Lemmas2
open Lean PydraModel PydraModel.Rules PydraModel.DriverUtil

/-
{"op":"rules","fields":[{"name":..,"kind":"optstr|bool|optbool|str|strd|ro|outopt","exempt":false?,
                          "requires":[[[name, null | [allowed…]],…],…]}],
 "xor":[[name|null,…],…], "assignments":[{name: null|true|false|"str"|{"unset":true}|{"lazy":true}, …}, …]}
 -> {"wf":…, "closed":…, "results":[{"viol":[…], "spec":bool, "uniform":bool}, …]}
-/

def valOfJson : Json → Except String Val
  | .null => pure .none
  | .bool b => pure (.bool b)
  | .str s => pure (.str s)
  | j@(.obj _) =>
      match j.getObjValAs? Bool "unset", j.getObjValAs? Bool "lazy" with
      | .ok true, _ => pure .unset
      | _, .ok true => pure .lazy
      | _, _ => throw "bad value object"
  | _ => throw "bad value"

def reqOfJson (j : Json) : Except String Req := do
  let a ← j.getArr?
  if a.size != 2 then throw "requirement must be [name, allowed]" else
  let n ← a[0]!.getStr?
  match a[1]! with
  | .null => pure ⟨n, none⟩
  | .arr vs => pure ⟨n, some (← vs.toList.mapM (·.getStr?))⟩
  | _ => throw "bad allowed values"

def fieldOfJson (j : Json) : Except String Field := do
  let name ← getStr j "name"
  let kind ← getStr j "kind"
  let exempt := (j.getObjValAs? Bool "exempt").toOption.getD false
  let reqs ← (← getArr j "requires").toList.mapM (fun rs => do (← rs.getArr?).toList.mapM reqOfJson)
  let (isBool, optFs, ex) ← match kind with
    | "bool" => pure (true, false, false)
    | "optstr" | "optbool" | "str" | "strd" => pure (false, false, false)
    | "ro" => pure (false, false, true)            -- shell.arg(type=str, readonly=True)
    | "outopt" => pure (false, true, true)         -- shell.outarg(type=File | None, path_template=…)
    | k => throw s!"bad kind {k}"
  pure { name, isBool, optFileset := optFs, exempt := exempt || ex, requires := reqs }

def groupOfJson (j : Json) : Except String (List (Option Rules.Name)) := do
  (← j.getArr?).toList.mapM (fun x => match x with
    | .null => pure none
    | .str s => pure (some s)
    | _ => throw "bad xor member")

def asgOfJson (j : Json) : Except String (List (Rules.Name × Val)) := do
  let o ← j.getObj?
  o.toList.mapM (fun (k, v) => do pure (k, ← valOfJson v))

def violToJson : Violation → Json
  | .mandatory f => Json.arr #["mandatory", f]
  | .requires f => Json.arr #["requires", f]
  | .xorMany s => Json.arr #["xor_many", Json.arr (s.map Json.str).toArray]
  | .xorNone s => Json.arr #["xor_none", Json.arr (s.map Json.str).toArray]

def handle (j : Json) : Json :=
  let r : Except String Json := do
    let op ← getStr j "op"
    match op with
    | "rules" =>
      let fields ← (← getArr j "fields").toList.mapM fieldOfJson
      let xor ← (← getArr j "xor").toList.mapM groupOfJson
      let d : Def := { fields, xor }
      let asgs ← (← getArr j "assignments").toList.mapM asgOfJson
      let results := asgs.map (fun l =>
        let a := assignOf l
        Json.mkObj [("viol", Json.arr ((ruleViolations d a).map violToJson).toArray),
                    ("spec", Json.bool (rulesOKb d a)),
                    ("uniform", Json.bool (decide (Uniform d a)))])
      return Json.mkObj [("wf", Json.bool (decide (WF d))), ("closed", Json.bool (decide (Closed d))),
                         ("results", Json.arr results.toArray)]
    | _ => throw s!"bad-op {op}"
  match r with
  | .ok v => v
  | .error e => err e

def main : IO Unit := run handle
