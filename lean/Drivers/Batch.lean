import PydraModel.DriverUtil
import PydraModel.Batch.Model
import PydraModel.Gen.EnvRegexes
open Lean PydraModel PydraModel.DriverUtil
open PydraModel.Batch

def sj (s : List Char) : Json := Json.str (String.ofList s)
def optJ (o : Option (List Char)) : Json := match o with | some s => sj s | none => Json.null
def strsJ (xs : List (List Char)) : Json := Json.arr (xs.map sj).toArray

def verdictJ : Verdict → Json
  | .done => Json.mkObj [("kind", "done")]
  | .stillPolling => Json.mkObj [("kind", "stillPolling")]
  | .raised c m => Json.mkObj [("kind", "raised"), ("cls", Json.str c), ("msg", sj m)]

def respOfJson (j : Json) : Except String Response := do
  return ⟨← getNat j "rc", (← getStr j "out").toList, (← getStr j "err").toList⟩

def fileOfJson (j : Json) : Except String (List Char × List Char) := do
  let a ← j.getArr?
  if a.size != 2 then throw "file" else
  return ((← a[0]!.getStr?).toList, (← a[1]!.getStr?).toList)

def handle (j : Json) : Json :=
  let r : Except String Json := do
    let op ← getStr j "op"
    match op with
    | "slurm_run" =>
      let d ← j.getObjVal? "defaults"
      let defaults : Defaults := ⟨(← getStr d "job_name").toList, (← getStr d "out_file").toList,
                                  (← getStr d "err_file").toList, (← getStr d "script").toList⟩
      let a : Args := ⟨(← getStr j "user").toList, defaults⟩
      let files ← (← getArr j "files").toList.mapM fileOfJson
      let rs ← (← getArr j "responses").toList.mapM respOfJson
      let o := slurmRun a ⟨files⟩ rs
      return Json.mkObj [("verdict", verdictJ o.verdict), ("calls", Json.arr (o.calls.map strsJ).toArray),
                         ("requeues", toJson o.requeues), ("err_path", sj o.errPath)]
    | "find_opts" =>
      let u := (← getStr j "user").toList
      return Json.mkObj [("jobname", optJ (findJobName u)), ("output", optJ (findOutput u)), ("error", optJ (findError u)),
                         ("split", strsJ (pySplit u)), ("no_requeue", toJson (isInfix "--no-requeue".toList u))]
    | "sacct" =>
      let t := (← getStr j "text").toList
      return Json.mkObj [("match", match sacctSearch t with
        | some (st, c) => Json.arr #[sj st, sj c]
        | none => Json.null)]
    | "jobid" =>
      return Json.mkObj [("jobid", optJ (firstDigits (← getStr j "text").toList))]
    | "failure_of" =>
      let t := match j.getObjVal? "text" with
        | .ok (Json.str s) => some s.toList
        | _ => none
      return Json.mkObj [("verdict", verdictJ (failureOf t))]
    | "replace" =>
      return Json.mkObj [("out", sj (replace (← getStr j "pat").toList (← getStr j "rep").toList (← getStr j "s").toList))]
    | "final" =>
      let v ← match (← getStr j "verdict") with
        | "done" => pure Verdict.done
        | "raised" => pure (Verdict.raised "" [])
        | "stillPolling" => pure Verdict.stillPolling
        | x => throw s!"bad-verdict {x}"
      let re ← j.getObjValAs? Bool "result_exists"
      let f := if (← getStr j "context") == "node" then submitNode v re else submitPlain v re
      return Json.mkObj [("final", Json.str (match f with
        | .complete => "complete" | .failed => "failed" | .stillPolling => "stillPolling" | .hang => "hang"))]
    | "load_and_run" =>
      let b (k : String) : Except String Bool := j.getObjValAs? Bool k
      let oks := PydraModel.Gen.EnvRegexes.loadAndRunResultKwargs.map
        (ctorOK PydraModel.Gen.EnvRegexes.resultFields PydraModel.Gen.EnvRegexes.resultMandatoryFields)
      let o := loadAndRun (oks.getD 0 false) (oks.getD 1 false)
        ⟨!PydraModel.Gen.EnvRegexes.slurmPassesQuotedPath || PydraModel.Gen.EnvRegexes.loadAndRunConvertsPath,
         ← b "pickle_loads", ← b "parent_exists", ← b "run_raises", ← b "result_by_run", ← b "error_by_run"⟩
      return Json.mkObj [("exc", Json.str (match o.exc with | .none => "none" | .original => "original" | .typeError => "TypeError" | .attributeError => "AttributeError")),
                         ("errored_result_written", toJson o.erroredResultWritten), ("error_file_written", toJson o.errorFileWritten),
                         ("result_kept", toJson o.resultKept)]
    | "sge_run" =>
      let o := sgeRun .dict true (← getNat j "tasks") []
      return Json.mkObj [("verdict", verdictJ o.verdict), ("calls", Json.arr (o.calls.map strsJ).toArray)]
    | _ => throw s!"bad-op {op}"
  match r with
  | .ok v => v
  | .error e => err e

def main : IO Unit := run handle
