import PydraModel.DriverUtil
import PydraModel.JobProto.HashCheck
/-
JSON-lines driver of the C19 model.

  in : {"op": "run", "fields": [[name, valueBefore, valueAfter, visibleInSubmitter], …]   (value ids)
        "hash": [[valueId, hashId], …], "memo": bool, "check": bool, "raise_errors": bool, "same_job": bool,
        "skip": [names]  (optional: fields exempted from the post-run check; the code exempts none)}
  out: {"raised": bool, "changed": [names], "dir": "orig"|"other", "report": "silent"|"raised"|"logged"}

  in : {"op": "run_node", …as "run" (without "same_job")…, "submitted": bool (the dispatcher had computed the checksum),
        "pickled": bool (the job ran from a pickled copy), "keep_refs": bool (true = the code)}
       the job is a node of the submitted workflow / a state of a split task
  out: as "run"; "report" is that of the workflow submission

  in : {"op": "stage", "uses_staged": bool, "mode": "copy"|"link"|"hardlink"|"leave"}
  out: {"orig_changed": bool, "staged_is_orig": bool}
-/
open Lean PydraModel PydraModel.DriverUtil PydraModel.JobProto.HashCheck

def quad (j : Json) : Except String (Nat × Nat × Nat × Bool) := do
  let a ← j.getArr?
  if a.size != 4 then throw "field" else
  return (← a[0]!.getNat?, ← a[1]!.getNat?, ← a[2]!.getNat?, ← a[3]!.getBool?)

def pair (j : Json) : Except String (Nat × Nat) := do
  let a ← j.getArr?
  if a.size != 2 then throw "pair" else return (← a[0]!.getNat?, ← a[1]!.getNat?)

def modeOf : String → Except String CopyMode
  | "copy" => .ok .copy | "link" => .ok .link | "hardlink" => .ok .hardlink | "leave" => .ok .leave
  | s => .error s!"bad mode {s}"

def handleRun (node : Bool) (j : Json) : Except String Json := do
  let fields ← (← getArr j "fields").toList.mapM quad
  let table ← (← getArr j "hash").toList.mapM pair
  let memo ← (← j.getObjVal? "memo").getBool?
  let check ← (← j.getObjVal? "check").getBool?
  let raiseErrors ← (← j.getObjVal? "raise_errors").getBool?
  let same ← if node then pure true else (← j.getObjVal? "same_job").getBool?
  let submittedB ← if node then (← j.getObjVal? "submitted").getBool? else pure false
  let pickled ← if node then (← j.getObjVal? "pickled").getBool? else pure false
  let keepRefs ← if node then (← j.getObjVal? "keep_refs").getBool? else pure true
  for f in fields do
    if (table.lookup f.2.1).isNone || (table.lookup f.2.2.1).isNone then throw "value without hash"
  let hash : Nat → Nat := fun v => (table.lookup v).getD 0
  let ins : List (Nat × Nat) := fields.map (fun f => (f.1, f.2.1))
  let f : Nat → Nat → Nat := fun n v => match fields.find? (fun q => q.1 == n) with | some q => q.2.2.1 | none => v
  let visible : Nat → Bool := fun n => match fields.find? (fun q => q.1 == n) with | some q => q.2.2.2 | none => false
  let combine : List (Nat × Nat) → List (Nat × Nat) := fun hs => hs
  -- "skip": fields a (hypothetical) check would not re-hash; the code skips none, so the key may be absent
  let skipL ← match j.getObjVal? "skip" with
    | .ok v => do (← v.getArr?).toList.mapM (fun x => x.getNat?)
    | .error _ => pure []
  let j0 : Job Nat Nat (List (Nat × Nat)) :=
    if submittedB then ((Job.fresh ins : Job Nat Nat (List (Nat × Nat))).getChecksum hash combine true).1 else Job.fresh ins
  let j1 := if pickled then pickleRT keepRefs j0 else j0
  let o := runJobSkip hash combine (fun n => skipL.contains n) memo check j1 f
  let rep := match (if node then reportNode raiseErrors o else report hash combine raiseErrors same visible ins f o) with
    | .silent => "silent" | .raised => "raised" | .logged => "logged"
  return Json.mkObj [
    ("raised", toJson o.raised),
    ("changed", Json.arr (o.changed.map (fun n => toJson n)).toArray),
    ("dir", Json.str (if o.dir = computeHashes hash ins then "orig" else "other")),
    ("report", Json.str rep)]

def handleStage (j : Json) : Except String Json := do
  let uses ← (← j.getObjVal? "uses_staged").getBool?
  let m ← modeOf (← getStr j "mode")
  let fs : FS := fun _ => 5
  let after := writeThrough uses m 0 1 fs 9
  return Json.mkObj [
    ("orig_changed", toJson (after 0 != 5)),
    ("staged_is_orig", toJson ((bodyTarget uses m 0 1 fs).2 == 0))]

def handle (j : Json) : Json :=
  match (do
    match (← getStr j "op") with
    | "run" => handleRun false j
    | "run_node" => handleRun true j
    | "stage" => handleStage j
    | s => throw s!"bad op {s}" : Except String Json) with
  | .ok v => v
  | .error e => err e

def main : IO Unit := run handle
