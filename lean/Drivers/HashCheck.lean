import PydraModel.DriverUtil
import PydraModel.JobProto.HashCheck
/-
JSON-lines driver of the C19 model.

  in : {"op": "run", "fields": [[name, valueBefore, valueAfter, visibleInSubmitter], …]   (value ids)
        "hash": [[valueId, hashId], …], "memo": bool, "check": bool, "raise_errors": bool, "same_job": bool,
        "skip": [names]  (optional: fields exempted from the post-run check; the code exempts none)}
  out: {"raised": bool, "changed": [names], "dir": "orig"|"other", "report": "silent"|"raised"|"logged"}

  in : {"op": "stage", "uses_staged": bool, "mode": "copy"|"link"|"hardlink"|"leave"}
  out: {"orig_changed": bool, "staged_is_orig": bool}
-/
open Lean PydraModel PydraModel.DriverUtil PydraModel.JobProto.HashCheck

def quad (j : Json) : Except String (Nat × Nat × Nat × Bool) := do
  let a ← j.getArr?
  if a.size != 4 then throw "field" else
  return (← a[0]!.getNat?, ← a[1]!.getNat?, ← a[2]!.getNat?, ← a[3]!.getBool?)

def pair (j : Json) : Except String (Nat × Nat) := do
  let a ← j.getArr?
  if a.size != 2 then throw "pair" else return (← a[0]!.getNat?, ← a[1]!.getNat?)

def modeOf : String → Except String CopyMode
  | "copy" => .ok .copy | "link" => .ok .link | "hardlink" => .ok .hardlink | "leave" => .ok .leave
  | s => .error s!"bad mode {s}"

def handleRun (j : Json) : Except String Json := do
  let fields ← (← getArr j "fields").toList.mapM quad
  let table ← (← getArr j "hash").toList.mapM pair
  let memo ← (← j.getObjVal? "memo").getBool?
  let check ← (← j.getObjVal? "check").getBool?
  let raiseErrors ← (← j.getObjVal? "raise_errors").getBool?
  let same ← (← j.getObjVal? "same_job").getBool?
  for f in fields do
    if (table.lookup f.2.1).isNone || (table.lookup f.2.2.1).isNone then throw "value without hash"
  let hash : Nat → Nat := fun v => (table.lookup v).getD 0
  let ins : List (Nat × Nat) := fields.map (fun f => (f.1, f.2.1))
  let f : Nat → Nat → Nat := fun n v => match fields.find? (fun q => q.1 == n) with | some q => q.2.2.1 | none => v
  let visible : Nat → Bool := fun n => match fields.find? (fun q => q.1 == n) with | some q => q.2.2.2 | none => false
  let combine : List (Nat × Nat) → List (Nat × Nat) := fun hs => hs
  -- "skip": fields a (hypothetical) check would not re-hash; the code skips none, so the key may be absent
  let skipL ← match j.getObjVal? "skip" with
    | .ok v => do (← v.getArr?).toList.mapM (fun x => x.getNat?)
    | .error _ => pure []
  let o := runJobSkip hash combine (fun n => skipL.contains n) memo check (Job.fresh ins) f
  let rep := match report hash combine raiseErrors same visible ins f o with
    | .silent => "silent" | .raised => "raised" | .logged => "logged"
  return Json.mkObj [
    ("raised", toJson o.raised),
    ("changed", Json.arr (o.changed.map (fun n => toJson n)).toArray),
    ("dir", Json.str (if o.dir = computeHashes hash ins then "orig" else "other")),
    ("report", Json.str rep)]

def handleStage (j : Json) : Except String Json := do
  let uses ← (← j.getObjVal? "uses_staged").getBool?
  let m ← modeOf (← getStr j "mode")
  let fs : FS := fun _ => 5
  let after := writeThrough uses m 0 1 fs 9
  return Json.mkObj [
    ("orig_changed", toJson (after 0 != 5)),
    ("staged_is_orig", toJson ((bodyTarget uses m 0 1 fs).2 == 0))]

def handle (j : Json) : Json :=
  match (do
    match (← getStr j "op") with
    | "run" => handleRun j
    | "stage" => handleStage j
    | s => throw s!"bad op {s}" : Except String Json) with
  | .ok v => v
  | .error e => err e

def main : IO Unit := run handle
