import PydraModel.DriverUtil
import PydraModel.Envs.Lmod
import PydraModel.Envs.Container
import PydraModel.Gen.EnvRegexes
open Lean PydraModel PydraModel.DriverUtil
open PydraModel.Envs

def pairOfJson (j : Json) : Except String (List Char × List Char) := do
  let a ← j.getArr?
  if a.size != 2 then throw "pair" else
  return ((← a[0]!.getStr?).toList, (← a[1]!.getStr?).toList)

def pairToJson (p : List Char × List Char) : Json :=
  Json.arr #[Json.str (String.ofList p.1), Json.str (String.ofList p.2)]

def pairsToJson (ps : List (List Char × List Char)) : Json := Json.arr (ps.map pairToJson).toArray

def strsToJson (xs : List (List Char)) : Json := Json.arr (xs.map (fun s => Json.str (String.ofList s))).toArray

def atomOfJson (j : Json) : Except String Container.Atom := do
  match j.getObjVal? "lit" with
  | .ok l => return .lit (← l.getStr?).toList
  | .error _ =>
    let p ← pairOfJson (← j.getObjVal? "path")
    return .path p.1 p.2

def fieldOfJson (j : Json) : Except String Container.Field := do
  let files ← (← getArr j "files").toList.mapM pairOfJson
  let rw ← j.getObjValAs? Bool "rw"
  return ⟨files, rw⟩

def bindToJson (b : Container.Bind) : Json :=
  Json.arr #[Json.str (String.ofList b.host), Json.str (String.ofList b.cont), Json.str (String.ofList (Container.modeStr b.rw))]

def handle (j : Json) : Json :=
  let r : Except String Json := do
    let op ← getStr j "op"
    match op with
    | "parse" =>
      let text := (← getStr j "text").toList
      return Json.mkObj [("pairs", pairsToJson (Lmod.parseLmod text))]
    | "lmod_env" =>
      let caller ← (← getArr j "caller").toList.mapM pairOfJson
      let text := (← getStr j "text").toList
      return Json.mkObj [("env", pairsToJson (Lmod.lmodEnv caller text)),
                         ("pinned", pairsToJson (Lmod.lmodEnvPinned caller text)),
                         ("pairs", pairsToJson (Lmod.parseLmod text))]
    | "container" =>
      let kind ← getStr j "kind"
      let xargs ← (← getArr j "xargs").toList.mapM (fun x => do return (← x.getStr?).toList)
      let cfg : Container.Cfg := {
        root := (← getStr j "root").toList, image := (← getStr j "image").toList, tag := (← getStr j "tag").toList,
        xargs := xargs, cacheRoot := (← getStr j "cache_root").toList, cacheDir := (← getStr j "cache_dir").toList }
      let fields ← (← getArr j "fields").toList.mapM fieldOfJson
      let native ← (← getArr j "native").toList.mapM (fun a => do (← a.getArr?).toList.mapM atomOfJson)
      let argv ← match kind with
        | "docker" => pure (Container.dockerArgv cfg fields native)
        | "singularity" => pure (Container.singularityArgv cfg fields native)
        | _ => throw s!"bad-kind {kind}"
      let bs := Container.bindings cfg fields
      let lastW := Container.setCache (Container.applyEntries Container.upsertLast cfg.root [] (Container.entries fields))
                      cfg.cacheRoot (Container.cacheCont cfg)
      let flag := if kind == "docker" then "-v".toList else "-B".toList
      return Json.mkObj [("argv", strsToJson argv), ("bindings", Json.arr (bs.map bindToJson).toArray),
                         ("last_writer", Json.arr (lastW.map bindToJson).toArray),
                         ("pinned_mounts", strsToJson (Container.mountArgsPinned flag bs))]
    | "lmod_history" =>
      -- runs: [{mods, caller, text}] where text = what the lmod executable prints for (mods, caller)
      let runs ← (← getArr j "runs").toList.mapM (fun r => do
        let mods ← (← getArr r "mods").toList.mapM (fun x => do return (← x.getStr?).toList)
        let caller ← (← getArr r "caller").toList.mapM pairOfJson
        return ((⟨mods, caller⟩ : Lmod.Run), (← getStr r "text").toList))
      let load : Lmod.Loader := fun mods caller =>
        match runs.find? (fun rt => rt.1.mods == mods && rt.1.caller == caller) with
        | some rt => rt.2
        | none => []
      let h := runs.map (·.1)
      return Json.mkObj [("tree", Json.arr ((Lmod.runObj (Lmod.stepTree load) () h).map pairsToJson).toArray),
                         ("memo", Json.arr ((Lmod.runObj (Lmod.stepMemo load) none h).map pairsToJson).toArray)]
    | "rc_fails" =>
      let rc ← j.getObjValAs? Int "rc"
      let t ← match (← getStr j "env") with
        | "docker" => pure PydraModel.Gen.EnvRegexes.dockerRcTest
        | "singularity" => pure PydraModel.Gen.EnvRegexes.singularityRcTest
        | "lmod" => pure PydraModel.Gen.EnvRegexes.lmodRcTest
        | e => throw s!"bad-env {e}"
      return Json.mkObj [("fails", toJson (t.eval rc))]
    | "norm_path" =>
      return Json.mkObj [("norm", Json.str (String.ofList (Container.normPath (← getStr j "path").toList)))]
    | _ => throw s!"bad-op {op}"
  match r with
  | .ok v => v
  | .error e => err e

def main : IO Unit := run handle
