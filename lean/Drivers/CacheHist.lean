import PydraModel.DriverUtil
import PydraModel.JobProto.CacheHist
/-
JSON-lines driver of the C11 model.

  in : {"bodies": [[n, [o0, o1, …]], …],     outcomes of the executions of task n (number = ok value, null = raises);
                                             the last one repeats
        "wvals":  [[n, v], …],               value of workflow n when all its nodes succeed
        "skip":   true|false,                true = current load_result (false = pinned commit, D8)
        "nest":   true|false,                true = workflow NODES get `rerun and propagate_rerun` too (the code)
        nodes:    [node…] with node = n (task n) | ["w", n, [node…]] (workflow n with its own nodes)
        "locs":   [l, …], "keys": ["t0", "w1", …],   what to print of the store
        "ops":    [["submit", n, root, [ro…], rerun] | ["submitWf", n, [nodes…], root, [ro…], rerun, propagate]
                   | ["plant", loc, key]]}
  out: {"trace": [{"out": v|"err"|null, "cells": [[…per loc: per key: "absent"|"incomplete"|"err"|v]], "execs": […per key]}]}
-/
open Lean PydraModel PydraModel.DriverUtil PydraModel.JobProto.CacheHist

def natList (j : Json) : Except String (List Nat) := do
  (← j.getArr?).toList.mapM (fun x => x.getNat?)

def keyOfStr (s : String) : Except String Key :=
  match s.toList with
  | 't' :: r => match (String.ofList r).toNat? with | some n => .ok (.task n) | none => .error s!"bad key {s}"
  | 'w' :: r => match (String.ofList r).toNat? with | some n => .ok (.wf n) | none => .error s!"bad key {s}"
  | _ => .error s!"bad key {s}"

def resOfJson (j : Json) : Except String Res :=
  match j with
  | .null => .ok .err
  | _ => do return .ok (← j.getNat?)

def getBool (j : Json) : Except String Bool := j.getBool?

def subOf (root ro rerun : Json) : Except String Sub := do
  return ⟨← root.getNat?, ← natList ro, ← getBool rerun⟩

partial def nodesOf (js : List Json) : Except String Nodes :=
  match js with
  | [] => .ok .nil
  | j :: rest => do
    let r ← nodesOf rest
    match j.getNat? with
    | .ok n => return .task n r
    | .error _ =>
      let a ← j.getArr?
      if a.size != 3 then throw "node" else
      if (← a[0]!.getStr?) != "w" then throw "node tag" else
      return .wf (← a[1]!.getNat?) (← nodesOf (← a[2]!.getArr?).toList) r

def opOfJson (j : Json) : Except String Op := do
  let a ← j.getArr?
  if a.size == 0 then throw "op" else
  match (← a[0]!.getStr?) with
  | "submit" =>
    if a.size != 5 then throw "submit arity" else
    return .submit (← a[1]!.getNat?) (← subOf a[2]! a[3]! a[4]!)
  | "submitWf" =>
    if a.size != 7 then throw "submitWf arity" else
    return .submitWf (← a[1]!.getNat?) (← nodesOf (← a[2]!.getArr?).toList) (← subOf a[3]! a[4]! a[5]!) (← getBool a[6]!)
  | "plant" =>
    if a.size != 3 then throw "plant arity" else
    return .plant (← a[1]!.getNat?) (← keyOfStr (← a[2]!.getStr?))
  | s => throw s!"bad-op {s}"

def nth (l : List Res) (i : Nat) : Res :=
  match l with
  | [] => .err
  | [x] => x
  | x :: xs => if i = 0 then x else nth xs (i - 1)

def worldOf (bodies : List (Nat × List Res)) (wvals : List (Nat × Nat)) : World :=
  { body := fun n i => match bodies.lookup n with | some l => nth l i | none => .err
    wval := fun n => (wvals.lookup n).getD 0 }

def resJ : Res → Json
  | .ok v => toJson v
  | .err => Json.str "err"

def cellJ : Cell → Json
  | .absent => Json.str "absent"
  | .incomplete => Json.str "incomplete"
  | .complete r => resJ r

def stateJ (st : St) (locs : List Loc) (keys : List Key) : List (String × Json) :=
  [("cells", Json.arr (locs.map (fun l => Json.arr (keys.map (fun k => cellJ (st.store l k))).toArray)).toArray),
   ("execs", Json.arr (keys.map (fun k => toJson (st.execs k))).toArray)]

def traceJ (W : World) (skip nest : Bool) (locs : List Loc) (keys : List Key) : St → List Op → List Json
  | _, [] => []
  | st, op :: ops =>
    let r := step W skip nest st op
    let out := match r.2 with | none => Json.null | some x => resJ x
    Json.mkObj (("out", out) :: stateJ r.1 locs keys) :: traceJ W skip nest locs keys r.1 ops

def pairList {α} (j : Json) (f : Json → Except String α) : Except String (List (Nat × α)) := do
  (← j.getArr?).toList.mapM (fun x => do
    let a ← x.getArr?
    if a.size != 2 then throw "pair" else return ((← a[0]!.getNat?), (← f a[1]!)))

def handle (j : Json) : Json :=
  match (do
    let bodies ← pairList (← j.getObjVal? "bodies") (fun x => do (← x.getArr?).toList.mapM resOfJson)
    let wvals ← pairList (← j.getObjVal? "wvals") (fun x => x.getNat?)
    let skip ← (← j.getObjVal? "skip").getBool?
    let nest ← (← j.getObjVal? "nest").getBool?
    let locs ← natList (← j.getObjVal? "locs")
    let keys ← (← getArr j "keys").toList.mapM (fun x => do keyOfStr (← x.getStr?))
    let ops ← (← getArr j "ops").toList.mapM opOfJson
    let W := worldOf bodies wvals
    return Json.mkObj [("trace", Json.arr (traceJ W skip nest locs keys St.init ops).toArray)] : Except String Json) with
  | .ok v => v
  | .error e => err e

def main : IO Unit := run handle
