import PydraModel.DriverUtil
import PydraModel.Mount.Model
open Lean PydraModel PydraModel.Mount PydraModel.DriverUtil

def entryOfJson (j : Json) : Except String Entry := do
  let a ← j.getArr?
  if a.size != 2 then throw "entry" else
  return ((← a[0]!.getStr?).toList, (← a[1]!.getStr?).toList)

def entryToJson (e : Entry) : Json := Json.arr #[Json.str (String.ofList e.1), Json.str (String.ofList e.2)]

def handle (j : Json) : Json :=
  let r : Except String Json := do
    let op ← getStr j "op"
    match op with
    | "get_mount" =>
      let tbl ← (← getArr j "table").toList.mapM entryOfJson
      let path := (← getStr j "path").toList
      return Json.mkObj [("str", entryToJson (getMountStr tbl path)),
                         ("comp", entryToJson (getMountComp tbl path)),
                         ("comps", Json.arr ((comps path).map (fun c => Json.str (String.ofList c))).toArray)]
    | "parse" =>
      let pairs ← (← getArr j "pairs").toList.mapM entryOfJson
      let strT := parseTable (fun m c => c.isPrefixOf m) pairs
      let compT := parseTable (fun m c => (comps c).isPrefixOf (comps m)) pairs
      return Json.mkObj [("str", Json.arr (strT.map entryToJson).toArray), ("comp", Json.arr (compT.map entryToJson).toArray)]
    | _ => throw s!"bad-op {op}"
  match r with
  | .ok v => v
  | .error e => err e

def main : IO Unit := run handle
