import PydraModel.DriverUtil
import PydraModel.PathTemplate.Model
open Lean PydraModel PydraModel.PathTemplate PydraModel.DriverUtil

def strOf (j : Json) : Except String Str := do return (← j.getStr?).toList

def scalarOfJson (j : Json) : Except String Scalar := do
  if let .ok s := j.getObjValAs? String "str" then return .str s.toList
  if let .ok i := j.getObjValAs? Int "int" then return .int i
  if let .ok a := j.getObjValAs? (Array Json) "dec" then
    if a.size != 2 then throw "dec" else
    return .dec (← a[0]!.getInt?) (← a[1]!.getNat?)
  throw s!"bad-scalar {j.compress}"

def valOfJson (j : Json) : Except String Val := do
  if let .ok f := j.getObjVal? "file" then
    let dir ← (← f.getObjValAs? (Array Json) "dir").toList.mapM strOf
    let name := (← f.getObjValAs? String "name").toList
    return .file { dir := dir, name := name }
  if let .ok a := j.getObjValAs? (Array Json) "list" then
    return .list (← a.toList.mapM scalarOfJson)
  if let .ok _ := j.getObjVal? "none" then return .none
  return .sc (← scalarOfJson j)

def errTag : Err → String
  | .attributeError => "AttributeError"
  | .multiplePaths => "Exception"
  | .lengthMismatch => "Exception"
  | .keyError => "KeyError"
  | .valueError => "ValueError"
  | .unmodelled w => s!"unmodelled:{w}"

def js (s : Str) : Json := Json.str (String.ofList s)

def handle (j : Json) : Json :=
  let r : Except String Json := do
    let op ← getStr j "op"
    match op with
    | "resolve" =>
      let cd := (← getStr j "cd").toList
      let tmpl := (← getStr j "tmpl").toList
      if tmpl.any (fun c => c.toNat ≥ 128) then throw "non-ascii-template" else
      let vals ← (← getArr j "vals").toList.mapM (fun e => do
        let a ← e.getArr?
        if a.size != 2 then throw "val-entry" else
        return ((← a[0]!.getStr?).toList, ← valOfJson a[1]!))
      let keep ← j.getObjValAs? Bool "keep"
      let multi ← j.getObjValAs? Bool "multi"
      let g ← j.getObjVal? "given"
      let given : Given ← match (← getStr g "kind") with
        | "template" => pure Given.template
        | "off" => pure Given.off
        | "path" => pure (Given.path (← getStr g "p").toList)
        | k => throw s!"bad-given {k}"
      let c : Config := { tmpl := tmpl, vals := vals, keep := keep, multi := multi }
      let out := match resolve cd c given with
        | .error e => Json.mkObj [("kind", "error"), ("err", errTag e)]
        | .ok .absent => Json.mkObj [("kind", "absent")]
        | .ok (.one p) => Json.mkObj [("kind", "one"), ("p", js p)]
        | .ok (.many ps) => Json.mkObj [("kind", "many"), ("ps", Json.arr (ps.map js).toArray)]
      return Json.mkObj [("out", out),
                         ("fields", Json.arr ((fieldNames tmpl).map js).toArray),
                         ("formatted", Json.arr ((formattedStrings c).map js).toArray),
                         ("tailOK", Json.bool (TemplateTailOK c))]
    | "name" =>
      let p := (← getStr j "p").toList
      return Json.mkObj [("name", js (pathName p)), ("tailOK", Json.bool (TailOK p))]
    | "fixed" =>
      let m ← j.getObjValAs? Int "m"
      let k ← getNat j "k"
      let n ← getNat j "n"
      return Json.mkObj [("fixed", js (fixed m k n)), ("repr", js (decRepr m k))]
    | _ => throw s!"bad-op {op}"
  match r with
  | .ok v => v
  | .error e => err e

def main : IO Unit := run handle
