import PydraModel.DriverUtil
import PydraModel.StateAlg.Model
import PydraModel.StateAlg.Spec
/-
JSON-lines driver for engine StateAlg.

  {"op":"state","splitter":T,"fields":[[name,value,ndim],…],"combiner":[name,…]}
      T = {"f":name} | {"o":[T,…]} | {"i":[T,…]}      value = nested JSON arrays of integers
    → {"model": …prepare_states + states_val + public output…, "spec": …nested loops + group-by…}
  {"op":"elements","value":V,"ndim":n}        → {"model":…, "spec":…, "shape":…, "dims":…}
  {"op":"split_check", …SplitReq…}             → {"model": "ok" | error class}
  {"op":"combine_check","task_fields":[…],"has_combiner":b,"overwrite":b,"combiner":[…],"has_splitter":b}
-/
open Lean PydraModel PydraModel.StateAlg PydraModel.DriverUtil

partial def splOfJson (j : Json) : Except String Spl := do
  match j.getObjVal? "f" with
  | .ok v => return .fld (← v.getNat?)
  | .error _ =>
    match j.getObjVal? "o" with
    | .ok v => return .outer (← (← v.getArr?).toList.mapM splOfJson)
    | .error _ =>
      match j.getObjVal? "i" with
      | .ok v => return .inner (← (← v.getArr?).toList.mapM splOfJson)
      | .error _ => throw "bad splitter"

partial def nestedOfJson (j : Json) : Except String Nested :=
  match j with
  | .arr a => do return .node (← a.toList.mapM nestedOfJson)
  | .num _ => do return .leaf (← j.getInt?)
  | _ => throw "bad value"

partial def nestedToJson : Nested → Json
  | .leaf v => Json.num (JsonNumber.fromInt v)
  | .node l => Json.arr (l.map nestedToJson).toArray

def natsToJson (l : List Nat) : Json := Json.arr (l.map (fun n => Json.num (JsonNumber.fromNat n))).toArray

def errName : Err → String
  | .shape => "ValueError" | .stack => "IndexError" | .index => "IndexError" | .state => "PydraStateError"
  | .key => "KeyError" | .value => "ValueError" | .type => "TypeError" | .malformed => "MALFORMED"

def errJson (e : Err) : Json := Json.mkObj [("err", Json.str (errName e))]

def tokToJson : Tok → Json
  | .f n => Json.num (JsonNumber.fromNat n)
  | .star => Json.str "*"
  | .dot => Json.str "."

def rowsValToJson (rows : List (List (Nat × Nested))) : Json :=
  Json.arr (rows.map (fun r => Json.arr (r.map (fun e => Json.arr #[Json.num (JsonNumber.fromNat e.1), nestedToJson e.2])).toArray)).toArray

def rowsIndToJson (rows : List (List (Nat × Nat))) : Json :=
  Json.arr (rows.map (fun r => Json.arr (r.map (fun e => Json.arr #[Json.num (JsonNumber.fromNat e.1), Json.num (JsonNumber.fromNat e.2)])).toArray)).toArray

def outToJson : Out → Json
  | .flat l => Json.mkObj [("flat", natsToJson l)]
  | .grouped g => Json.mkObj [("grouped", Json.arr (g.map natsToJson).toArray)]

def getBool (j : Json) (k : String) : Except String Bool := j.getObjValAs? Bool k
def getNats (j : Json) (k : String) : Except String (List Nat) := do
  (← getArr j k).toList.mapM (fun x => x.getNat?)

def mkVEnv (fields : List (Nat × List Nested × Nat)) : VEnv := fun n =>
  match fields.find? (fun e => e.1 == n) with
  | some e => e.2
  | none => ([], 1)

def handleState (j : Json) : Except String Json := do
  let s ← splOfJson (← j.getObjVal? "splitter")
  let fl ← (← getArr j "fields").toList.mapM (fun e => do
    let a ← e.getArr?
    if a.size != 3 then throw "field" else
    let v ← nestedOfJson a[1]!
    match v with
    | .node l => return ((← a[0]!.getNat?), l, (← a[2]!.getNat?))
    | .leaf _ => throw "field value must be a list")
  let comb ← getNats j "combiner"
  let venv := mkVEnv fl
  let env := shapeEnv venv
  -- model
  let model : Json :=
    match prepareStates env s comb with
    | .error e => errJson e
    | .ok p =>
      match mapSplits venv p.statesInd with
      | .error e => errJson e
      | .ok sv =>
        Json.mkObj [
          ("keys", natsToJson p.keys),
          ("states_ind", rowsIndToJson p.statesInd),
          ("states_val", rowsValToJson sv),
          ("combiner_all", natsToJson p.combinerAll),
          ("rpn", Json.arr ((toRPN s).map tokToJson).toArray),
          ("rpn_final", Json.arr (p.rpnFinal.map tokToJson).toArray),
          ("keys_final", natsToJson p.keysFinal),
          ("states_ind_final", rowsIndToJson p.statesIndFinal),
          ("mapping", Json.arr (p.mapping.map natsToJson).toArray),
          ("out", outToJson (publicGroups p (!comb.isEmpty)))]
  let model := model.setObjVal! "depth_ok" (Json.bool (depthCheck (toRPN s)))
  -- spec
  let spec : Json :=
    match Spec.expandVal venv s with
    | none => Json.mkObj [("err", Json.str "rejected")]
    | some rows =>
      -- the jobs' index assignments, for the group-by
      let jobsInd := match Spec.jobs (fun n => List.range (Spec.leavesAt (venv n).2 (venv n).1).length)
                              (fun n => Spec.specShape (venv n).2 (venv n).1) s with
        | some r => r
        | none => []
      Json.mkObj [
        ("rows", rowsValToJson rows),
        ("closure", natsToJson (Spec.closure s comb)),
        ("out", outToJson (if comb.isEmpty then .flat (List.range rows.length) else Spec.combineSpec s comb jobsInd))]
  return Json.mkObj [("model", model), ("spec", spec), ("wf", Json.bool s.wf)]

def handleElements (j : Json) : Except String Json := do
  let v ← nestedOfJson (← j.getObjVal? "value")
  let n ← getNat j "ndim"
  match v with
  | .leaf _ => throw "value must be a list"
  | .node l =>
    let model := match elements l n with
      | .ok xs => Json.arr (xs.map nestedToJson).toArray
      | .error e => errJson e
    return Json.mkObj [
      ("model", model),
      ("spec", Json.arr ((Spec.leavesAt n l).map nestedToJson).toArray),
      ("shape", natsToJson (inputShape n l)),
      ("dims", match Spec.dims? n l with | some d => natsToJson d | none => Json.null)]

def handleSplitCheck (j : Json) : Except String Json := do
  let spl ← match j.getObjVal? "splitter" with
    | .ok Json.null => pure none
    | .ok v => do pure (some (← splOfJson v))
    | .error _ => pure none
  let r : SplitReq := {
    splitter := spl, kwargs := ← getNats j "kwargs", taskFields := ← getNats j "task_fields",
    hasSplitter := ← getBool j "has_splitter", overwrite := ← getBool j "overwrite",
    ndimNames := ← getNats j "ndim_names", nonSeq := ← getNats j "non_seq" }
  match splitCheck r with
  | .ok s => return Json.mkObj [("model", Json.str "ok"), ("rpn", Json.arr ((toRPN s).map tokToJson).toArray)]
  | .error e => return Json.mkObj [("model", Json.str (errName e))]

def handleCombineCheck (j : Json) : Except String Json := do
  let r1 := combineCheck (← getNats j "task_fields") (← getBool j "has_combiner") (← getBool j "overwrite") (← getNats j "combiner")
  match r1 with
  | .error e => return Json.mkObj [("model", Json.str (errName e)), ("where", Json.str "combine")]
  | .ok _ =>
    match submitCheck (← getBool j "has_splitter") true with
    | .error e => return Json.mkObj [("model", Json.str (errName e)), ("where", Json.str "submit")]
    | .ok _ => return Json.mkObj [("model", Json.str "ok")]

def handle (j : Json) : Json :=
  let r : Except String Json := do
    let op ← getStr j "op"
    match op with
    | "state" => handleState j
    | "elements" => handleElements j
    | "split_check" => handleSplitCheck j
    | "combine_check" => handleCombineCheck j
    | _ => throw s!"bad-op {op}"
  match r with
  | .ok v => v
  | .error e => err e

def main : IO Unit := run handle
