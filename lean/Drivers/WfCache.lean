import PydraModel.DriverUtil
import PydraModel.WfCache.Concrete
open Lean PydraModel PydraModel.DriverUtil PydraModel.WfCache PydraModel.WfCache.Concrete

/-! JSON-lines driver for engine `WfCache` (C30).  Input: a history case of harness/engines/wfcache.py;
output `{"model": [obs per op], "spec": [obs per op]}`. -/

def cvalOfJson (j : Json) : Except String CVal :=
  match j with
  | .bool b => .ok (.bool b)
  | .num n => if n.exponent == 0 then .ok (.int n.mantissa) else .error "non-integer"
  | .arr a => do
    let l ← a.toList.mapM fun e => match e with
      | .num n => if n.exponent == 0 then Except.ok n.mantissa else .error "non-integer"
      | _ => .error "list element"
    return .list l
  | _ => .error "bad value"

def fldOfStr : String → Except String Fld
  | "x" => .ok .x | "y" => .ok .y | "n" => .ok .n | "b" => .ok .b
  | s => .error s!"bad-field {s}"

def defOfJson (d : Nat) (j : Json) : Except String Def := do
  let kind ← getStr j "kind"
  let atag ← getStr j "atag"
  let split := (j.getObjValAs? Bool "split").toOption.getD false
  match kind with
  | "plain" => return { source := (0, d), k := 0, atag := atag, split := split }
  | "factory" => return { source := (1, ← getNat j "group"), k := ← getNat j "k", atag := atag, split := split }
  | _ => throw "bad-kind"

def taskOfJson (ndefs : Nat) (j : Json) : Except String (Nat × (Fld → CVal)) := do
  let d ← getNat j "def"
  if d ≥ ndefs then throw "bad-def"
  let x ← cvalOfJson (← j.getObjVal? "x")
  let y ← cvalOfJson (← j.getObjVal? "y")
  let n ← cvalOfJson (← j.getObjVal? "n")
  let b ← cvalOfJson (← j.getObjVal? "b")
  return (d, fun f => match f with | .x => x | .y => y | .n => n | .b => b)

def opOfJson (S : Sig) (conv : Json → Except String S.Val) (ntasks : Nat) (j : Json) : Except String (Op S) := do
  let a ← j.getArr?
  let idx (k : Nat) : Except String Nat := do
    let i ← (a[k]?.getD Json.null).getNat?
    if i ≥ ntasks then throw "bad-task-index"
    return i
  match a[0]? with
  | some (.str "construct") =>
    let lz ← (← (a[2]?.getD Json.null).getArr?).toList.mapM fun s => do fldOfStr (← s.getStr?)
    return .construct (← idx 1) lz
  | some (.str "tconstruct") => return .tconstruct (← idx 1)
  | some (.str "run") =>
    match a[2]? with
    | some (.str "s") => return .run (← idx 1) true
    | some (.str "f") => return .run (← idx 1) false
    | _ => throw "bad-root"
  | some (.str "set") => return .set (← idx 1) (← fldOfStr (← (a[2]?.getD Json.null).getStr?)) (← conv (a[3]?.getD Json.null))
  | some (.str "clear") => return .clear
  | _ => throw "bad-op"

def obsToJson (defs : Array Def) (w : Option Nat) : Obs (sig defs w) → Json
  | .view v => Json.mkObj [("view", v)]
  | .out o => Json.mkObj [("out", o)]
  | .error e => Json.mkObj [("error", Json.str e)]
  | .none => Json.null
  | .badTask => Json.mkObj [("malformed", Json.str "bad-task")]

def handle (j : Json) : Json :=
  let r : Except String Json := do
    let defsJ ← getArr j "defs"
    let defs ← (List.range defsJ.size).mapM fun d => defOfJson d defsJ[d]!
    let defs := defs.toArray
    let tasks ← (← getArr j "tasks").toList.mapM (taskOfJson defs.size)
    -- environment parameter measured by the harness: number of superset candidates with a correct hash (null = no limit)
    let window : Option Nat ← match j.getObjVal? "window" with
      | .ok .null => pure none
      | .ok w => do pure (some (← w.getNat?))
      | .error _ => throw "missing-window"
    let S := sig defs window
    let ops ← (← getArr j "ops").toList.mapM (opOfJson S cvalOfJson tasks.length)
    let m := runHist S (init S tasks) ops
    let s := specHist S tasks ops
    -- the hypotheses of C30_partial, evaluated on this history (compared with the harness' own match rules)
    let used := ops.filterMap fun op => match op with
      | .construct i _ => some i | .tconstruct i => some i | .run i _ => some i | _ => none
    let clash := used.any fun i => used.any fun k =>
      match tasks[i]?, tasks[k]? with
      | some (ci, _), some (ck, _) =>
        match defs[ci]?, defs[ck]? with
        | some di, some dk => di.source == dk.source && di.k != dk.k
        | _, _ => false
      | _, _ => false
    return Json.mkObj [("model", Json.arr (m.map (obsToJson defs window)).toArray),
                       ("spec", Json.arr (s.map (obsToJson defs window)).toArray),
                       ("okHist", okHist S [] ops), ("closureClash", clash)]
  match r with
  | .ok v => v
  | .error e => err e

def main : IO Unit := run handle
