import PydraModel.DriverUtil
import PydraModel.Argv.Spec
import PydraModel.Argv.ModelX
/-
JSON-lines driver of engine `Argv` (core part: C22, C23, C24).

  {"op":"shlex","s":STR}                       -> {"lex": R, "raw": R, "split_cmd": R}     R = {"ok":[STR..]} | {"err":TAG}
  {"op":"render","argv":[STR..]}               -> {"cmdline": STR, "quoted": STR, "cmdline_split": R, "quoted_split": R}
  {"op":"run","exe":[STR..],"fields":[FIELD..],"values":[VALUE..],"append":[STR..]}
       FIELD = {"name":STR,"bool":B,"multi":B,"optional":B,"argstr":STR|null,"position":INT|null,"sep":STR}
       VALUE = null | SCALAR | [SCALAR..]
       SCALAR = {"s":STR} | {"i":INT} | {"f":STR,"z":B} | {"p":STR} | {"b":B}
     -> {"positions": {"ok":[INT..]}|{"err":TAG}, "argv": R, "cmdline": {"ok":STR}|{"err":TAG}, "spec":[STR..]}
  {"op":"runx","exe":[STR..],"fields":[FIELDX..],"values":[VALUEX..],"append":[STR..],"xenv":{KEY:STR..},"cd":STR,"class_form":B}
       FIELDX = FIELD + {"out":B,"readonly":B,"file_union":B,"allowed":[SCALAR..]|null,
                         "formatter":{"args":[STR..],"pieces":[PIECE..]}|null,"template":{"tmpl":STR,"keep":B}|null}
       PIECE  = {"lit":STR} | {"arg":NAT} | {"field_name":NAT} | {"input":[NAT,STR]}
       VALUEX = VALUE | {"nothing":true}
     -> {"argv": RX, "cmdline": RX}     RX = {"ok":..} | {"err":TAG}   (extended model, `Argv/ModelX.lean`)
-/
open Lean PydraModel PydraModel.Argv PydraModel.DriverUtil

def S (s : Str) : Json := Json.str (String.ofList s)
def SL (l : List Str) : Json := Json.arr (l.map S).toArray

def errTag : Err → String
  | .noClosingQuote => "noClosingQuote"
  | .noEscapedChar => "noEscapedChar"
  | .overlap => "overlap"
  | .dupPosition => "dupPosition"
  | .noSlot => "noSlot"
  | .format => "format"

def R {α} (f : α → Json) : Except Err α → Json
  | .ok v => Json.mkObj [("ok", f v)]
  | .error e => Json.mkObj [("err", Json.str (errTag e))]

def strList (j : Json) (k : String) : Except String (List Str) := do
  let a ← getArr j k
  a.toList.mapM (fun x => do return (← x.getStr?).toList)

def optOf (j : Json) (k : String) : Except String (Option Json) :=
  match j.getObjVal? k with
  | .ok Json.null => .ok none
  | .ok v => .ok (some v)
  | .error e => .error e

def scalarOf (j : Json) : Except String Scalar := do
  match j.getObjVal? "s" with
  | .ok v => return .str (← v.getStr?).toList
  | .error _ =>
  match j.getObjVal? "i" with
  | .ok v => return .int (← v.getInt?)
  | .error _ =>
  match j.getObjVal? "f" with
  | .ok v => return .float (← v.getStr?).toList (← (← j.getObjVal? "z").getBool?)
  | .error _ =>
  match j.getObjVal? "p" with
  | .ok v => return .path (← v.getStr?).toList
  | .error _ =>
  match j.getObjVal? "b" with
  | .ok v => return .bool (← v.getBool?)
  | .error _ => throw "bad-scalar"

def valueOf (j : Json) : Except String Value :=
  match j with
  | Json.null => .ok .unset
  | Json.arr a => do return .many (← a.toList.mapM scalarOf)
  | _ => do return .one (← scalarOf j)

def fieldOf (j : Json) : Except String Field := do
  let name := (← getStr j "name").toList
  let isBool ← (← j.getObjVal? "bool").getBool?
  let isMulti ← (← j.getObjVal? "multi").getBool?
  let sep := (← getStr j "sep").toList
  let optional ← (← j.getObjVal? "optional").getBool?
  let position ← match ← optOf j "position" with
    | none => pure none
    | some v => do pure (some (← v.getInt?))
  let argstr ← match ← optOf j "argstr" with
    | none => pure none
    | some v => do
      match parseArgstr (← v.getStr?).toList with
      | .ok a => pure (some a)
      | .error _ => throw "argstr-outside-modelled-fragment"
  return { name, isBool, isMulti, argstr, position, sep, optional }

def errXTag : ErrX → String
  | .base e => errTag e
  | .notAllowed => "notAllowed"
  | .mandatory => "mandatory"
  | .readonlyGiven => "readonlyGiven"
  | .formatterArg => "formatterArg"
  | .reformat => "reformat"
  | .template _ => "template"
  | .unmodelled w => "unmodelled:" ++ w

def RX {α} (f : α → Json) : Except ErrX α → Json
  | .ok v => Json.mkObj [("ok", f v)]
  | .error e => Json.mkObj [("err", Json.str (errXTag e))]

def valueXOf (j : Json) : Except String ValueX :=
  match j.getObjVal? "nothing" with
  | .ok _ => .ok .nothing
  | .error _ => do return .v (← valueOf j)

def pieceOf (j : Json) : Except String FPiece := do
  match j.getObjVal? "lit" with
  | .ok v => return .lit (← v.getStr?).toList
  | .error _ =>
  match j.getObjVal? "arg" with
  | .ok v => return .arg (← v.getNat?)
  | .error _ =>
  match j.getObjVal? "field_name" with
  | .ok v => return .fieldName (← v.getNat?)
  | .error _ =>
  match j.getObjVal? "input" with
  | .ok v => do
    let a ← v.getArr?
    if a.size != 2 then throw "input piece" else
    return .input (← a[0]!.getNat?) (← a[1]!.getStr?).toList
  | .error _ => throw "bad-piece"

def fieldXOf (j : Json) : Except String (FieldX × Option (List FPiece)) := do
  let base ← fieldOf j
  let readonly ← (← j.getObjVal? "readonly").getBool?
  let fileUnion ← (← j.getObjVal? "file_union").getBool?
  let allowed ← match ← optOf j "allowed" with
    | none => pure none
    | some v => do pure (some (← (← v.getArr?).toList.mapM scalarOf))
  let (formatter, pieces) ← match ← optOf j "formatter" with
    | none => pure (none, none)
    | some v => do
      let args ← strList v "args"
      let ps ← (← getArr v "pieces").toList.mapM pieceOf
      pure (some args, some ps)
  let template ← match ← optOf j "template" with
    | none => pure none
    | some v => do pure (some (⟨(← getStr v "tmpl").toList, ← (← v.getObjVal? "keep").getBool?⟩ : TemplateX))
  let out ← (← j.getObjVal? "out").getBool?
  return (⟨base, { readonly, fileUnion, allowed, formatter, template, out }⟩, pieces)

def handle (j : Json) : Json :=
  let r : Except String Json := do
    let op ← getStr j "op"
    match op with
    | "shlex" =>
      let s := (← getStr j "s").toList
      return Json.mkObj [("lex", R SL (shlexSplit s)), ("raw", R SL (shlexSplitRaw s)), ("split_cmd", R SL (splitCmd s))]
    | "render" =>
      let argv ← strList j "argv"
      let c := cmdlineOf argv
      let q := joinSp (argv.map shQuote)
      return Json.mkObj [("cmdline", S c), ("quoted", S q),
                         ("cmdline_split", R SL (shlexSplit c)), ("quoted_split", R SL (shlexSplit q))]
    | "run" =>
      let exe ← strList j "exe"
      let app ← strList j "append"
      let fs ← (← getArr j "fields").toList.mapM fieldOf
      let vs ← (← getArr j "values").toList.mapM valueOf
      if fs.length != vs.length then throw "fields/values length" else
      let ps := definePositions (fs.map (·.position))
      let argv := runDef exe fs vs app
      return Json.mkObj [
        ("positions", R (fun l : List Int => Json.arr (l.map (fun i => Json.num (JsonNumber.fromInt i))).toArray) ps),
        ("argv", R SL argv),
        ("cmdline", R S (argv.map cmdlineOf)),
        ("spec", SL (Spec.commandArgs exe fs vs app))]
    | "runx" =>
      let exe ← strList j "exe"
      let app ← strList j "append"
      let fps ← (← getArr j "fields").toList.mapM fieldXOf
      let vs ← (← getArr j "values").toList.mapM valueXOf
      if fps.length != vs.length then throw "fields/values length" else
      let cd := (← getStr j "cd").toList
      let xj ← j.getObjVal? "xenv"
      let xenv : Env := fun n => match xj.getObjVal? (String.ofList n) with
        | .ok (Json.str s) => some s.toList
        | _ => none
      let F : FormatterFn := fun name args =>
        match fps.find? (fun fp => fp.1.base.name == name) with
        | some (_, some pieces) => interpFormatter pieces args
        | _ => "<no-formatter>".toList
      let classForm ← (← j.getObjVal? "class_form").getBool?
      let argv := runDefForm classForm F xenv cd exe (fps.map (·.1)) vs app
      return Json.mkObj [("argv", RX SL argv), ("cmdline", RX S (argv.map cmdlineOf))]
    | _ => throw s!"bad-op {op}"
  match r with
  | .ok v => v
  | .error e => err e

def main : IO Unit := run handle
