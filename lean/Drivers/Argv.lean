import PydraModel.DriverUtil
import PydraModel.Argv.Spec
/-
JSON-lines driver of engine `Argv` (core part: C22, C23, C24).

  {"op":"shlex","s":STR}                       -> {"lex": R, "raw": R, "split_cmd": R}     R = {"ok":[STR..]} | {"err":TAG}
  {"op":"render","argv":[STR..]}               -> {"cmdline": STR, "quoted": STR, "cmdline_split": R, "quoted_split": R}
  {"op":"run","exe":[STR..],"fields":[FIELD..],"values":[VALUE..],"append":[STR..]}
       FIELD = {"name":STR,"bool":B,"multi":B,"argstr":STR|null,"position":INT|null,"sep":STR}
       VALUE = null | SCALAR | [SCALAR..]
       SCALAR = {"s":STR} | {"i":INT} | {"f":STR,"z":B} | {"p":STR} | {"b":B}
     -> {"positions": {"ok":[INT..]}|{"err":TAG}, "argv": R, "cmdline": {"ok":STR}|{"err":TAG}, "spec":[STR..]}
-/
open Lean PydraModel PydraModel.Argv PydraModel.DriverUtil

def S (s : Str) : Json := Json.str (String.ofList s)
def SL (l : List Str) : Json := Json.arr (l.map S).toArray

def errTag : Err → String
  | .noClosingQuote => "noClosingQuote"
  | .noEscapedChar => "noEscapedChar"
  | .overlap => "overlap"
  | .dupPosition => "dupPosition"
  | .noSlot => "noSlot"
  | .format => "format"

def R {α} (f : α → Json) : Except Err α → Json
  | .ok v => Json.mkObj [("ok", f v)]
  | .error e => Json.mkObj [("err", Json.str (errTag e))]

def strList (j : Json) (k : String) : Except String (List Str) := do
  let a ← getArr j k
  a.toList.mapM (fun x => do return (← x.getStr?).toList)

def optOf (j : Json) (k : String) : Except String (Option Json) :=
  match j.getObjVal? k with
  | .ok Json.null => .ok none
  | .ok v => .ok (some v)
  | .error e => .error e

def scalarOf (j : Json) : Except String Scalar := do
  match j.getObjVal? "s" with
  | .ok v => return .str (← v.getStr?).toList
  | .error _ =>
  match j.getObjVal? "i" with
  | .ok v => return .int (← v.getInt?)
  | .error _ =>
  match j.getObjVal? "f" with
  | .ok v => return .float (← v.getStr?).toList (← (← j.getObjVal? "z").getBool?)
  | .error _ =>
  match j.getObjVal? "p" with
  | .ok v => return .path (← v.getStr?).toList
  | .error _ =>
  match j.getObjVal? "b" with
  | .ok v => return .bool (← v.getBool?)
  | .error _ => throw "bad-scalar"

def valueOf (j : Json) : Except String Value :=
  match j with
  | Json.null => .ok .unset
  | Json.arr a => do return .many (← a.toList.mapM scalarOf)
  | _ => do return .one (← scalarOf j)

def fieldOf (j : Json) : Except String Field := do
  let name := (← getStr j "name").toList
  let isBool ← (← j.getObjVal? "bool").getBool?
  let isMulti ← (← j.getObjVal? "multi").getBool?
  let sep := (← getStr j "sep").toList
  let position ← match ← optOf j "position" with
    | none => pure none
    | some v => do pure (some (← v.getInt?))
  let argstr ← match ← optOf j "argstr" with
    | none => pure none
    | some v => do
      match parseArgstr (← v.getStr?).toList with
      | .ok a => pure (some a)
      | .error _ => throw "argstr-outside-modelled-fragment"
  return { name, isBool, isMulti, argstr, position, sep }

def handle (j : Json) : Json :=
  let r : Except String Json := do
    let op ← getStr j "op"
    match op with
    | "shlex" =>
      let s := (← getStr j "s").toList
      return Json.mkObj [("lex", R SL (shlexSplit s)), ("raw", R SL (shlexSplitRaw s)), ("split_cmd", R SL (splitCmd s))]
    | "render" =>
      let argv ← strList j "argv"
      let c := cmdlineOf argv
      let q := joinSp (argv.map shQuote)
      return Json.mkObj [("cmdline", S c), ("quoted", S q),
                         ("cmdline_split", R SL (shlexSplit c)), ("quoted_split", R SL (shlexSplit q))]
    | "run" =>
      let exe ← strList j "exe"
      let app ← strList j "append"
      let fs ← (← getArr j "fields").toList.mapM fieldOf
      let vs ← (← getArr j "values").toList.mapM valueOf
      if fs.length != vs.length then throw "fields/values length" else
      let ps := definePositions (fs.map (·.position))
      let argv := runDef exe fs vs app
      return Json.mkObj [
        ("positions", R (fun l : List Int => Json.arr (l.map (fun i => Json.num (JsonNumber.fromInt i))).toArray) ps),
        ("argv", R SL argv),
        ("cmdline", R S (argv.map cmdlineOf)),
        ("spec", SL (Spec.commandArgs exe fs vs app))]
    | _ => throw s!"bad-op {op}"
  match r with
  | .ok v => v
  | .error e => err e

def main : IO Unit := run handle
