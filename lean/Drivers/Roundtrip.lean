import PydraModel.DriverUtil
import PydraModel.Roundtrip.Lemmas2
open Lean PydraModel PydraModel.Roundtrip PydraModel.DriverUtil

/-
{"op":"roundtrip","flavor":"shell|python","name":…,"executor":VAL,
 "inputs":[{"name":…,"attrs":[[attr, VAL],…]},…],"outputs":[…],"xor":[[name|null,…],…],
 "assignments":[{name: null|bool|"str"|{"unset":true}},…]}
 VAL = null | bool | int | "str" | {"strs":[…]} | {"reqs":[[[name, null|[…]],…],…]} | {"atom": tag}
 -> {"wf","ser_ok","unstructured":{"inputs":{name:[attr…]},"outputs":{…}},"structure":"ok"|"ValueError",
     "diffs":[[field,attr],…],"shape_same":bool,"dict_mutated":bool,"second":"ok"|"ValueError"|null,
     "second_diffs":[…],"rules_diff":n}
{"op":"positions","fields":[{"name":…,"position":null|int},…]} -> {"positions":[…]}
-/

def reqOfJson (j : Json) : Except String Req := do
  let a ← j.getArr?
  if a.size != 2 then throw "requirement must be [name, allowed]" else
  let n ← a[0]!.getStr?
  match a[1]! with
  | .null => pure (n, none)
  | .arr vs => pure (n, some (← vs.toList.mapM (·.getStr?)))
  | _ => throw "bad allowed values"

def valOfJson : Json → Except String Val
  | .null => pure .none
  | .bool b => pure (.bool b)
  | .str s => pure (.str s)
  | j@(.num _) => do pure (.int (← j.getInt?))
  | j@(.obj _) =>
    match j.getObjVal? "atom", j.getObjVal? "strs", j.getObjVal? "reqs" with
    | .ok (.str t), _, _ => pure (.atom t)
    | _, .ok (.arr vs), _ => do pure (.strs (← vs.toList.mapM (·.getStr?)))
    | _, _, .ok (.arr rs) => do
        pure (.reqs (← rs.toList.mapM (fun r => do (← r.getArr?).toList.mapM reqOfJson)))
    | _, _, _ => throw "bad value object"
  | _ => throw "bad value"

def fieldOfJson (j : Json) : Except String Field := do
  let name ← getStr j "name"
  let attrs ← (← getArr j "attrs").toList.mapM (fun p => do
    let a ← p.getArr?
    if a.size != 2 then throw "attr must be [name, value]" else
    pure ((← a[0]!.getStr?), (← valOfJson a[1]!)))
  pure { name, attrs }

def groupOfJson (j : Json) : Except String (List (Option String)) := do
  (← j.getArr?).toList.mapM (fun x => match x with
    | .null => pure none
    | .str s => pure (some s)
    | _ => throw "bad xor member")

def rvalOfJson : Json → Except String Rules.Val
  | .null => pure .none
  | .bool b => pure (.bool b)
  | .str s => pure (.str s)
  | j@(.obj _) => do
      let u ← j.getObjValAs? Bool "unset"
      if u then pure .unset else throw "bad value object"
  | _ => throw "bad value"

def asgOfJson (j : Json) : Except String (List (String × Rules.Val)) := do
  let o ← j.getObj?
  o.toList.mapM (fun (k, v) => do pure (k, ← rvalOfJson v))

def keysJson (l : List (String × Entry)) : Json :=
  Json.mkObj (l.map (fun (n, e) => (n, match e with
    | .raw kv => Json.arr (kv.map (fun p => Json.str p.1)).toArray
    | .obj _ => Json.str "<field object>")))

/-- attribute-by-attribute comparison of two field lists (by field name) -/
def fieldDiffs (orig new : List Field) : List (String × String) :=
  orig.flatMap (fun f =>
    match new.find? (fun g => g.name == f.name) with
    | none => [(f.name, "<missing>")]
    | some g =>
      (f.attrs.filter (fun kv => g.attrs.lookup kv.1 != some kv.2)).map (fun kv => (f.name, kv.1)) ++
      (g.attrs.filter (fun kv => (f.attrs.lookup kv.1).isNone)).map (fun kv => (f.name, kv.1)))
  ++ (new.filter (fun g => !(orig.any (fun f => f.name == g.name)))).map (fun g => (g.name, "<extra>"))

def diffsJson (l : List (String × String)) : Json :=
  Json.arr (l.map (fun p => Json.arr #[Json.str p.1, Json.str p.2])).toArray

def defDiffs (d d' : Def) : List (String × String) :=
  fieldDiffs d.inputs d'.inputs ++ fieldDiffs d.outputs d'.outputs

def shapeSame (d d' : Def) : Bool :=
  d.flavor == d'.flavor && d.name == d'.name && d.executor == d'.executor && d.xor == d'.xor &&
  d.inputs.map (·.name) == d'.inputs.map (·.name) && d.outputs.map (·.name) == d'.outputs.map (·.name)

def handle (j : Json) : Json :=
  let r : Except String Json := do
    let op ← getStr j "op"
    match op with
    | "roundtrip" =>
      let flavor ← match (← getStr j "flavor") with
        | "shell" => pure Flavor.shell
        | "python" => pure Flavor.python
        | f => throw s!"bad flavor {f}"
      let d : Def := {
        flavor, name := (← getStr j "name"), executor := (← valOfJson (← j.getObjVal? "executor")),
        inputs := (← (← getArr j "inputs").toList.mapM fieldOfJson),
        outputs := (← (← getArr j "outputs").toList.mapM fieldOfJson),
        xor := (← (← getArr j "xor").toList.mapM groupOfJson) }
      let asgs ← (← getArr j "assignments").toList.mapM asgOfJson
      let dct := unstructureDef d
      let base : List (String × Json) := [("wf", Json.bool (decide (DefWF d))), ("ser_ok", Json.bool (decide (SerOKDef d))),
                   ("unstructured", Json.mkObj [("inputs", keysJson dct.inputs), ("outputs", keysJson dct.outputs)])]
      match structureDict dct with
      | .error _ =>
        return Json.mkObj (base ++ [("structure", Json.str "ValueError"), ("diffs", Json.arr #[]), ("shape_same", Json.null),
          ("dict_mutated", Json.bool false), ("second", Json.null), ("second_diffs", Json.arr #[]), ("rules_diff", Json.null)])
      | .ok (d', dct') =>
        let rulesDiff := (asgs.filter (fun l =>
          let a := Rules.assignOf l
          Rules.ruleViolations (toRules d) a != Rules.ruleViolations (toRules d') a)).length
        let (second, secondDiffs) := match structureDict dct' with
          | .error _ => (Json.str "ValueError", [])
          | .ok (d'', _) => (Json.str "ok", defDiffs d d'')
        return Json.mkObj (base ++ [("structure", Json.str "ok"), ("diffs", diffsJson (defDiffs d d')),
          ("shape_same", Json.bool (shapeSame d d')), ("dict_mutated", Json.bool (dct' != dct)),
          ("second", second), ("second_diffs", diffsJson secondDiffs), ("rules_diff", Json.num (JsonNumber.fromNat rulesDiff))])
    | "positions" =>
      let fs ← (← getArr j "fields").toList.mapM (fun f => do
        let name ← getStr f "name"
        let pos ← valOfJson (← f.getObjVal? "position")
        pure ({ name, attrs := [("position", pos)] } : Field))
      let out := (assignPositions fs).map (fun f => match f.get "position" with
        | .int i => Json.num (JsonNumber.fromInt i)
        | _ => Json.null)
      return Json.mkObj [("positions", Json.arr out.toArray)]
    | _ => throw s!"bad-op {op}"
  match r with
  | .ok v => v
  | .error e => err e

def main : IO Unit := run handle
