import PydraModel.DriverUtil
import PydraModel.Roundtrip.ArgvView
open Lean PydraModel PydraModel.Roundtrip PydraModel.DriverUtil

/-
{"op":"roundtrip","flavor":"shell|python","name":…,"executor":VAL,
 "inputs":[{"name":…,"attrs":[[attr, VAL],…]},…],"outputs":[…],"xor":[[name|null,…],…],
 "assignments":[{name: null|bool|"str"|{"unset":true}},…]}
 VAL = null | bool | int | "str" | {"strs":[…]} | {"reqs":[[[name, null|[…]],…],…]} | {"atom": tag}
 -> {"wf","ser_ok","unstructured":{"inputs":{name:[attr…]},"outputs":{…}},"order":{"inputs":[name…],"outputs":[name…]},"structure":"ok"|"ValueError",
     "diffs":[[field,attr],…],"shape_same":bool,"dict_mutated":bool,"second":"ok"|"ValueError"|null,
     "second_diffs":[…],"rules_diff":n, "argv": {"ok":[…]}|{"err":TAG}  (only with "values")}
 optional: "values": {name: null | SCALAR | [SCALAR…]}, "append": [STR…]   (SCALAR as in Drivers/Argv.lean)
{"op":"positions","fields":[{"name":…,"position":null|int},…]} -> {"positions":[…]}
-/

def reqOfJson (j : Json) : Except String Req := do
  let a ← j.getArr?
  if a.size != 2 then throw "requirement must be [name, allowed]" else
  let n ← a[0]!.getStr?
  match a[1]! with
  | .null => pure (n, none)
  | .arr vs => pure (n, some (← vs.toList.mapM (·.getStr?)))
  | _ => throw "bad allowed values"

def valOfJson : Json → Except String Val
  | .null => pure .none
  | .bool b => pure (.bool b)
  | .str s => pure (.str s)
  | j@(.num _) => do pure (.int (← j.getInt?))
  | j@(.obj _) =>
    match j.getObjVal? "atom", j.getObjVal? "strs", j.getObjVal? "reqs" with
    | .ok (.str t), _, _ => pure (.atom t)
    | _, .ok (.arr vs), _ => do pure (.strs (← vs.toList.mapM (·.getStr?)))
    | _, _, .ok (.arr rs) => do
        pure (.reqs (← rs.toList.mapM (fun r => do (← r.getArr?).toList.mapM reqOfJson)))
    | _, _, _ => throw "bad value object"
  | _ => throw "bad value"

def fieldOfJson (j : Json) : Except String Field := do
  let name ← getStr j "name"
  let attrs ← (← getArr j "attrs").toList.mapM (fun p => do
    let a ← p.getArr?
    if a.size != 2 then throw "attr must be [name, value]" else
    pure ((← a[0]!.getStr?), (← valOfJson a[1]!)))
  pure { name, attrs }

def groupOfJson (j : Json) : Except String (List (Option String)) := do
  (← j.getArr?).toList.mapM (fun x => match x with
    | .null => pure none
    | .str s => pure (some s)
    | _ => throw "bad xor member")

def rvalOfJson : Json → Except String Rules.Val
  | .null => pure .none
  | .bool b => pure (.bool b)
  | .str s => pure (.str s)
  | j@(.obj _) => do
      let u ← j.getObjValAs? Bool "unset"
      if u then pure .unset else throw "bad value object"
  | _ => throw "bad value"

def asgOfJson (j : Json) : Except String (List (String × Rules.Val)) := do
  let o ← j.getObj?
  o.toList.mapM (fun (k, v) => do pure (k, ← rvalOfJson v))

def scalarOf (j : Json) : Except String Argv.Scalar := do
  match j.getObjVal? "s" with
  | .ok v => return .str (← v.getStr?).toList
  | .error _ =>
  match j.getObjVal? "i" with
  | .ok v => return .int (← v.getInt?)
  | .error _ =>
  match j.getObjVal? "f" with
  | .ok v => return .float (← v.getStr?).toList (← (← j.getObjVal? "z").getBool?)
  | .error _ =>
  match j.getObjVal? "p" with
  | .ok v => return .path (← v.getStr?).toList
  | .error _ =>
  match j.getObjVal? "b" with
  | .ok v => return .bool (← v.getBool?)
  | .error _ => throw "bad-scalar"

def argvValueOf (j : Json) : Except String Argv.Value :=
  match j with
  | Json.null => .ok .unset
  | Json.arr a => do return .many (← a.toList.mapM scalarOf)
  | _ => do return .one (← scalarOf j)

def argvErrTag : Argv.Err → String
  | .noClosingQuote => "noClosingQuote"
  | .noEscapedChar => "noEscapedChar"
  | .overlap => "overlap"
  | .dupPosition => "dupPosition"
  | .noSlot => "noSlot"
  | .format => "format"

def argvJson : Except Argv.Err (List Argv.Str) → Json
  | .ok l => Json.mkObj [("ok", Json.arr (l.map (fun w => Json.str (String.ofList w))).toArray)]
  | .error e => Json.mkObj [("err", Json.str (argvErrTag e))]

def keysJson (l : List (String × Entry)) : Json :=
  Json.mkObj (l.map (fun (n, e) => (n, match e with
    | .raw kv => Json.arr (kv.map (fun p => Json.str p.1)).toArray
    | .obj _ => Json.str "<field object>")))

/-- attribute-by-attribute comparison of two field lists (by field name) -/
def fieldDiffs (orig new : List Field) : List (String × String) :=
  orig.flatMap (fun f =>
    match new.find? (fun g => g.name == f.name) with
    | none => [(f.name, "<missing>")]
    | some g =>
      (f.attrs.filter (fun kv => g.attrs.lookup kv.1 != some kv.2)).map (fun kv => (f.name, kv.1)) ++
      (g.attrs.filter (fun kv => (f.attrs.lookup kv.1).isNone)).map (fun kv => (f.name, kv.1)))
  ++ (new.filter (fun g => !(orig.any (fun f => f.name == g.name)))).map (fun g => (g.name, "<extra>"))

def diffsJson (l : List (String × String)) : Json :=
  Json.arr (l.map (fun p => Json.arr #[Json.str p.1, Json.str p.2])).toArray

def defDiffs (d d' : Def) : List (String × String) :=
  fieldDiffs d.inputs d'.inputs ++ fieldDiffs d.outputs d'.outputs

def shapeSame (d d' : Def) : Bool :=
  d.flavor == d'.flavor && d.name == d'.name && d.executor == d'.executor && d.xor == d'.xor &&
  d.inputs.map (·.name) == d'.inputs.map (·.name) && d.outputs.map (·.name) == d'.outputs.map (·.name)

def handle (j : Json) : Json :=
  let r : Except String Json := do
    let op ← getStr j "op"
    match op with
    | "roundtrip" =>
      let flavor ← match (← getStr j "flavor") with
        | "shell" => pure Flavor.shell
        | "python" => pure Flavor.python
        | f => throw s!"bad flavor {f}"
      let d : Def := {
        flavor, name := (← getStr j "name"), executor := (← valOfJson (← j.getObjVal? "executor")),
        inputs := (← (← getArr j "inputs").toList.mapM fieldOfJson),
        outputs := (← (← getArr j "outputs").toList.mapM fieldOfJson),
        xor := (← (← getArr j "xor").toList.mapM groupOfJson) }
      let asgs ← (← getArr j "assignments").toList.mapM asgOfJson
      let argvOf : Option (Def → Json) ← match j.getObjVal? "values" with
        | .ok vj => do
          let o ← vj.getObj?
          let l ← o.toList.mapM (fun (k, v) => do pure (k, ← argvValueOf v))
          let app ← (← getArr j "append").toList.mapM (fun x => do pure (← x.getStr?).toList)
          let vals : String → Argv.Value := fun n => match l.find? (fun p => p.1 == n) with
            | some p => p.2
            | none => .unset
          pure (some (fun (dd : Def) => argvJson (commandArgsOf dd vals app)))
        | .error _ => pure none
      let dct := unstructureDef d
      let base : List (String × Json) := [("wf", Json.bool (decide (DefWF d))), ("ser_ok", Json.bool (decide (SerOKDef d))),
                   ("unstructured", Json.mkObj [("inputs", keysJson dct.inputs), ("outputs", keysJson dct.outputs)]),
                   -- the dictionaries are ordered: field order is part of what the round trip preserves
                   ("order", Json.mkObj [("inputs", Json.arr (dct.inputs.map (fun p => Json.str p.1)).toArray),
                                         ("outputs", Json.arr (dct.outputs.map (fun p => Json.str p.1)).toArray)])]
      match structureDict dct with
      | .error _ =>
        return Json.mkObj (base ++ [("structure", Json.str "ValueError"), ("diffs", Json.arr #[]), ("shape_same", Json.null),
          ("dict_mutated", Json.bool false), ("second", Json.null), ("second_diffs", Json.arr #[]), ("rules_diff", Json.null)])
      | .ok d' =>
        let rulesDiff := (asgs.filter (fun l =>
          let a := Rules.assignOf l
          Rules.ruleViolations (toRules d) a != Rules.ruleViolations (toRules d') a)).length
        -- `structure` is a pure function of the dictionary (deepcopy): the second call sees the same dictionary
        let (second, secondDiffs) := match structureDict dct with
          | .error _ => (Json.str "ValueError", [])
          | .ok d'' => (Json.str "ok", defDiffs d d'')
        return Json.mkObj (base ++ [("structure", Json.str "ok"), ("diffs", diffsJson (defDiffs d d')),
          ("shape_same", Json.bool (shapeSame d d')), ("dict_mutated", Json.bool false),
          ("second", second), ("second_diffs", diffsJson secondDiffs), ("rules_diff", Json.num (JsonNumber.fromNat rulesDiff))]
          ++ (match argvOf with
              | some g => [("argv", g d), ("argv_roundtripped", g d')]
              | none => []))
    | "positions" =>
      let fs ← (← getArr j "fields").toList.mapM (fun f => do
        let name ← getStr f "name"
        let pos ← valOfJson (← f.getObjVal? "position")
        pure ({ name, attrs := [("position", pos)] } : Field))
      let out := (assignPositions fs).map (fun f => match f.get "position" with
        | .int i => Json.num (JsonNumber.fromInt i)
        | _ => Json.null)
      return Json.mkObj [("positions", Json.arr out.toArray)]
    | _ => throw s!"bad-op {op}"
  match r with
  | .ok v => v
  | .error e => err e

def main : IO Unit := run handle
