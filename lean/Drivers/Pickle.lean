import PydraModel.DriverUtil
import PydraModel.Pickle.Model
import PydraModel.Gen.PickleState
open Lean PydraModel PydraModel.Pickle PydraModel.DriverUtil

/-- input: {"class": name, "attrs": {"a": "none" | "value", ...}}; output: per attribute the
    kind of value after `__setstate__(__getstate__(o))`: same | none | fresh | absent | err | pickled -/
def kindOf (before after : Val) : String :=
  if after == before then (match after with | .none => "none" | .absent => "absent" | _ => "same") else
  match after with
  | .none => "none" | .fresh => "fresh" | .absent => "absent" | .err => "err" | .pickled _ => "pickled" | .atom _ => "other"

def handle (j : Json) : Json :=
  let r : Except String Json := do
    let cn ← getStr j "class"
    let some C := PydraModel.Gen.PickleState.classes.find? (fun c => c.name == cn) | throw s!"unknown-class {cn}"
    let attrs ← (j.getObjVal? "attrs")
    let kvs ← match attrs with
      | .obj m => pure (m.toList)
      | _ => throw "attrs"
    let o : Obj := fun a => match kvs.find? (fun kv => kv.1 == a) with
      | some (_, .str "none") => .none
      | some _ => .atom 1
      | Option.none => .absent
    let names := (kvs.map (·.1)) ++ ((mentioned (C.get ++ C.set)).filter (fun a => !(kvs.map (·.1)).contains a))
    let res := names.map (fun a => (a, Json.str (kindOf (o a) (roundTrip C o a))))
    return Json.mkObj [("kinds", Json.mkObj res)]
  match r with
  | .ok v => v
  | .error e => err e

def main : IO Unit := run handle
