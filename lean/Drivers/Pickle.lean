import PydraModel.DriverUtil
import PydraModel.Pickle.Model
import PydraModel.Pickle.Deep
import PydraModel.Gen.PickleState
open Lean PydraModel PydraModel.Pickle PydraModel.DriverUtil

/-- input: {"class": name, "attrs": {"a": "none" | "value", ...}}; output: per attribute the
    kind of value after `__setstate__(__getstate__(o))`: same | none | fresh | absent | err | pickled -/
def kindOf (before after : Val) : String :=
  if after == before then (match after with | .none => "none" | .absent => "absent" | _ => "same") else
  match after with
  | .none => "none" | .fresh => "fresh" | .absent => "absent" | .err => "err" | .pickled _ => "pickled" | .atom _ => "other" | .ref _ => "other"

/-- attribute value of a heap object from its JSON description: "none" | "value" | {"ref": i} -/
def valOf (j : Json) (salt : Nat) : Val :=
  match j with
  | .str "none" => .none
  | .str _ => .atom salt
  | other => match other.getObjValAs? Nat "ref" with
    | .ok i => .ref i
    | .error _ => .atom salt

def objOfJson (j : Json) : Except String (ClassState × Obj) := do
  let cn ← getStr j "class"
  let C := match PydraModel.Gen.PickleState.classes.find? (fun c => c.name == cn) with
    | some C => C
    | Option.none => ⟨cn, [.all], [.all]⟩       -- a class without methods of its own: plain pickling
  let attrs ← (j.getObjVal? "attrs")
  let kvs ← match attrs with
    | .obj m => pure (m.toList)
    | _ => throw "attrs"
  let o : Obj := fun a => match kvs.find? (fun kv => kv.1 == a) with
    | some (_, v) => valOf v 1
    | Option.none => .absent
  return (C, o)

/-- input: {"heap": [obj…], "paths": [[attr…]…]} (object 0 is the root); output: per path the kind of what is
    found after pickling the whole graph, relative to what was there before -/
def handleDeep (j : Json) : Except String Json := do
  let objs ← getArr j "heap"
  let parsed ← objs.toList.mapM objOfJson
  let h : Heap := fun i => parsed[i]?
  let paths ← getArr j "paths"
  let res ← paths.toList.mapM (fun pj => do
    let p ← (Lean.fromJson? pj : Except String (List String))
    return Json.str (kindOf (follow h 0 p) (follow (heapRT h) 0 p)))
  return Json.mkObj [("kinds", Json.arr res.toArray)]

def handle (j : Json) : Json :=
  let r : Except String Json := do
    if (j.getObjVal? "heap").isOk then handleDeep j else
    let cn ← getStr j "class"
    let some C := PydraModel.Gen.PickleState.classes.find? (fun c => c.name == cn) | throw s!"unknown-class {cn}"
    let attrs ← (j.getObjVal? "attrs")
    let kvs ← match attrs with
      | .obj m => pure (m.toList)
      | _ => throw "attrs"
    let o : Obj := fun a => match kvs.find? (fun kv => kv.1 == a) with
      | some (_, .str "none") => .none
      | some _ => .atom 1
      | Option.none => .absent
    let names := (kvs.map (·.1)) ++ ((mentioned (C.get ++ C.set)).filter (fun a => !(kvs.map (·.1)).contains a))
    let res := names.map (fun a => (a, Json.str (kindOf (o a) (roundTrip C o a))))
    return Json.mkObj [("kinds", Json.mkObj res)]
  match r with
  | .ok v => v
  | .error e => err e

def main : IO Unit := run handle
