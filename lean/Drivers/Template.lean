import PydraModel.DriverUtil
import PydraModel.Template.Model
import PydraModel.Template.ArgvView
import PydraModel.Gen.TemplateRegexes
open Lean PydraModel PydraModel.Template PydraModel.DriverUtil

def js (s : Str) : Json := Json.str (String.ofList s)

/-- the format table of the generator's type atoms, as regenerated from /repo's interpreter -/
def genTable : FmtTable :=
  Gen.TemplateRegexes.formatRows.map fun (atom, mime, ext, isFs, _) =>
    (atom.toList, mime.map (fun m => (m.toList, ext.map String.toList, isFs)))

def genKeywords : List Str := Gen.TemplateRegexes.pyKeywords.map String.toList
def genReserved : List Str := Gen.TemplateRegexes.reservedFieldNames.map String.toList

def errTag : Err → String
  | .noExecutable => "ValueError"
  | .unknownToken => "ValueError"
  | .optionWithoutField => "ValueError"
  | .templateOnInput => "ValueError"
  | .unpack => "ValueError"
  | .unknownType => "TypeError"
  | .unknownMime => "FormatRecognitionError"
  | .assertion => "AssertionError"
  | .nameError => "NameError"
  | .syntaxError => "SyntaxError"
  | .badDefault => "TypeError"
  | .reserved => "ValueError"
  | .badIdentifier => "SyntaxError"
  | .unmodelled w => s!"unmodelled:{w}"

def errDetail : Err → String
  | .noExecutable => "noExecutable"
  | .unknownToken => "unknownToken"
  | .optionWithoutField => "optionWithoutField"
  | .templateOnInput => "templateOnInput"
  | .unpack => "unpack"
  | .unknownType => "unknownType"
  | .unknownMime => "unknownMime"
  | .assertion => "assertion"
  | .nameError => "nameError"
  | .syntaxError => "syntaxError"
  | .badDefault => "badDefault"
  | .reserved => "reserved"
  | .badIdentifier => "badIdentifier"
  | .unmodelled w => s!"unmodelled:{w}"

def atomJson : Atom → Json
  | .builtin n => js n
  | .fmt m => js m

def baseJson : BaseTy → Json
  | .single a => atomJson a
  | .tuple as => Json.arr (#[Json.str "tuple"] ++ (as.map atomJson).toArray)
  | .vartuple a => Json.arr #[Json.str "vartuple", atomJson a]

def tyJson (t : Ty) : Json :=
  Json.mkObj [("base", baseJson t.base), ("multi", Json.bool t.multi), ("optional", Json.bool t.optional)]

/-- decimal `m / 10^k` as Python's `repr(float)` prints it (short literals only) -/
def floatRepr (m : Int) (k : Nat) : String :=
  let a := m.natAbs
  let ip := a / 10 ^ k
  let fpRaw := (Nat.repr (a % 10 ^ k)).toList
  let fp := (List.replicate (k - fpRaw.length) '0' ++ fpRaw)
  let fp := (fp.reverse.dropWhile (· == '0')).reverse
  (if m < 0 then "-" else "") ++ Nat.repr ip ++ "." ++ (if fp = [] then "0" else String.ofList fp)

def slitJson : SLit → Json
  | .int i => Json.mkObj [("int", Json.num (JsonNumber.fromInt i))]
  | .float m k => Json.mkObj [("float", Json.str (floatRepr m k))]
  | .bool b => Json.mkObj [("bool", Json.bool b)]
  | .str s => Json.mkObj [("str", js s)]
  | .none => Json.mkObj [("none", Json.bool true)]

def defaultJson : Default → Json
  | .noDefault => Json.mkObj [("kind", "no")]
  | .emptyList => Json.mkObj [("kind", "list")]
  | .lit (.sc s) => Json.mkObj [("kind", "lit"), ("value", slitJson s)]
  | .lit (.tuple xs) => Json.mkObj [("kind", "lit"), ("value", Json.mkObj [("tuple", Json.arr (xs.map slitJson).toArray)])]

def optStr : Option Str → Json
  | none => Json.null
  | some s => js s

def kindStr : Kind → String
  | .arg => "arg"
  | .outarg => "outarg"
  | .out => "out"

def fieldJson (f : Field) : Json :=
  Json.mkObj [("name", js f.name), ("kind", kindStr f.kind), ("type", tyJson f.ty), ("argstr", optStr f.argstr),
    ("position", match f.position with | some p => Json.num (JsonNumber.fromNat p) | none => Json.null),
    ("default", defaultJson f.default), ("path_template", optStr f.pathTemplate),
    ("modify", Json.bool f.modify), ("passthrough", Json.bool f.passthrough)]

def defJson (r : Except Err Def) : Json :=
  match r with
  | .error e => Json.mkObj [("err", errTag e), ("why", errDetail e)]
  | .ok d => Json.mkObj [("exe", Json.arr (d.exe.map js).toArray), ("fields", Json.arr (d.fields.map fieldJson).toArray)]

partial def argValOfJson (j : Json) : Except String ArgVal := do
  if let .ok s := j.getObjValAs? String "atom" then return .atom s.toList
  if let .ok b := j.getObjValAs? Bool "bool" then return .bool b
  if let .ok a := j.getObjValAs? (Array Json) "seq" then return .seq (← a.toList.mapM (fun x => do return (← x.getStr?).toList))
  if let .ok a := j.getObjValAs? (Array Json) "many" then return .many (← a.toList.mapM argValOfJson)
  if let .ok _ := j.getObjVal? "template" then return .template
  if let .ok _ := j.getObjVal? "unset" then return .unset
  throw s!"bad-value {j.compress}"

/-- the value the Argv engine's model gets for a field: the given one, else the field's default; `none` = a shape the
    Argv value type cannot hold (lists of tuples) or a float default -/
def scalarOfArg : ArgVal → Option Argv.Scalar
  | .atom s => some (.str s)
  | .bool b => some (.bool b)
  | _ => none

def toArgvValue (jobDir : Str) (f : Field) (given : Option ArgVal) : Option Argv.Value :=
  match given with
  | some (.atom s) => some (.one (.str s))
  | some (.bool b) => some (.one (.bool b))
  | some (.seq xs) => some (.many (xs.map Argv.Scalar.str))
  | some (.many xs) => (xs.mapM scalarOfArg).map Argv.Value.many
  | some .template =>
    f.pathTemplate.bind (fun t => if t.contains '{' then none else some (.one (.path (jobDir ++ '/' :: t))))
  | some .unset => some .unset
  | none =>
    match f.default with
    | .noDefault =>
      if f.kind == .outarg then
        f.pathTemplate.bind (fun t => if t.contains '{' then none else some (.one (.path (jobDir ++ '/' :: t))))
      else none
    | .emptyList => some (.many [])
    | .lit (.sc (.bool b)) => some (.one (.bool b))
    | .lit (.sc .none) => some .unset
    | .lit (.sc s) => (litStr s).map (fun t => .one (.str t))
    | .lit (.tuple xs) => (xs.mapM litStr).map (fun ys => .many (ys.map Argv.Scalar.str))

def argvEngineErr : Argv.Err → String
  | .noClosingQuote => "ValueError"
  | .noEscapedChar => "ValueError"
  | .overlap => "ValueError"
  | .dupPosition => "Exception"
  | .noSlot => "IndexError"
  | .format => "KeyError"

def handle (j : Json) : Json :=
  let r : Except String Json := do
    let op ← getStr j "op"
    let tokens ← (← getArr j "tokens").toList.mapM (fun x => do return (← x.getStr?).toList)
    if tokens.any (fun t => t.any (fun c => c.toNat ≥ 128 || c.isWhitespace)) then throw "token-alphabet" else
    match op with
    | "define" =>
      return Json.mkObj [("parse", defJson (parseTemplate genTable tokens)),
                         ("define", defJson (define genTable genKeywords genReserved tokens)),
                         ("lex", Json.arr (tokens.map (fun t => match lex t with
                            | .arg b => Json.arr #["arg", js b]
                            | .flag o b => Json.arr #["flag", js o, js b]
                            | .opt => Json.arr #["opt"]
                            | .unknown => Json.arr #["unknown"])).toArray)]
    | "argv" =>
      let job := (← getStr j "job").toList
      let vals ← (← getArr j "vals").toList.mapM (fun e => do
        let a ← e.getArr?
        if a.size != 2 then throw "val-entry" else
        return ((← a[0]!.getStr?).toList, ← argValOfJson a[1]!))
      match define genTable genKeywords genReserved tokens with
      | .error e => return Json.mkObj [("err", errTag e), ("why", errDetail e)]
      | .ok d =>
        -- the same definition through the Argv engine's model (what theorem C25_argv is about)
        let args := d.fields.filter isArgument
        let engine : Json :=
          match args.mapM (fun f => toArgvValue job f (lookupGiven vals f.name)) with
          | none => Json.null
          | some vs =>
            match Argv.runDef d.exe (toArgvFields d) vs [] with
            | .ok argv => Json.arr (argv.map js).toArray
            | .error e => Json.mkObj [("err", argvEngineErr e)]
        match commandArgs job d vals with
        | .error e => return Json.mkObj [("err", errTag e), ("why", errDetail e), ("engine", engine)]
        | .ok argv => return Json.mkObj [("argv", Json.arr (argv.map js).toArray), ("engine", engine)]
    | _ => throw s!"bad-op {op}"
  match r with
  | .ok v => v
  | .error e => err e

def main : IO Unit := run handle
