"""usage: python tools/seed_meta.py <id> <src-dir> '<json detected_by>' '<notes>'"""
import json, os, sys
id, src, detected, notes = sys.argv[1], sys.argv[2], json.loads(sys.argv[3]), sys.argv[4]
d = '/verif/seeded/' + id
os.makedirs(d, exist_ok=True)
a = json.load(open(f'{src}/meta.json')) if os.path.exists(f'{src}/meta.json') else {}
for f in ('patch.diff', 'demo.py'):
    open(f'{d}/{f}', 'w').write(open(f'{src}/{f}').read())
m = {"property": id[:3], "round": 2 if id.endswith("r2") else 1,
     "origin": "fresh sub-agent given only the property text and a scratch worktree of /repo (no access to /verif)",
     "summary": a.get("summary"), "what_it_needs_to_manifest": a.get("what_it_needs_to_manifest"),
     "files_changed": a.get("files_changed"), "agent_tests_run": a.get("tests_run"),
     "coordinator_ran": [f"tools/try_seed.sh {id} {src}: scratch worktree of /repo HEAD + patch.diff; demo.py on /repo -> rc 0; demo.py on the patched tree -> rc 1; ./check <ids> from a private copy of /verif with VERIF_REPO=<patched tree>",
                         "tools/suite_with_patches.sh (pinned 1351-test baseline on a worktree with the patch applied): see seeded/SUITE_RESULTS.md"],
     "detected_by": detected, "notes": notes}
json.dump(m, open(f'{d}/meta.json', 'w'), indent=1)
print("wrote", d)
