#!/bin/bash
# usage: tools/multiseed.sh "C09 C31" "0 1 2"   -> one line per (id, seed): rc and summary
cd "$(dirname "$0")/.."
for id in $1; do for s in $2; do
  out=$(VERIF_SEED=$s ./check $id 2>&1); rc=$?
  echo "$id seed=$s rc=$rc | $(echo "$out" | grep -c '^VIOLATION') viol | $(echo "$out" | grep -c '^KNOWN-FINDING') known | $(echo "$out" | tail -1 | cut -c1-160)"
done; done
