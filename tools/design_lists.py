"""Rewrite the generated regions of DESIGN.md: the list of repaired defects (from known_findings.json) and the status table."""
import json, re, subprocess, sys
p = '/verif/DESIGN.md'
s = open(p).read()
fixed = json.load(open('/verif/known_findings.json'))['fixed']
rows = ["  | property | commit | defect |", "  |---|---|---|"]
for f in fixed:
    m = re.match(r"fixed: property=(C\d+) (\w+) (.*)", f)
    rows.append(f"  | {m.group(1)} | {m.group(2)} | {m.group(3)} |")
block = "  <!-- FIXED-LIST-BEGIN -->\n" + "\n".join(rows) + f"\n\n  ({len(fixed)} repairs; authoritative list: `known_findings.json`, key `fixed`.)\n  <!-- FIXED-LIST-END -->"
s = re.sub(r"  <!-- FIXED-LIST-BEGIN -->.*?<!-- FIXED-LIST-END -->", lambda _: block, s, flags=re.S)
status = subprocess.run(['/venv/bin/python', '/verif/tools/status_table.py'], capture_output=True, text=True, env={"PYTHONPATH": "/repo:/verif", "PATH": "/usr/bin:/bin"}).stdout
if "<!-- STATUS-BEGIN -->" in s:
    s = re.sub(r"<!-- STATUS-BEGIN -->.*?<!-- STATUS-END -->", lambda _: "<!-- STATUS-BEGIN -->\n" + status + "<!-- STATUS-END -->", s, flags=re.S)
open(p, 'w').write(s)
print("DESIGN.md regenerated:", len(fixed), "fixed entries")
