"""Print every stable_pass id of /root/.vp/BASELINE.json that did not pass in a junit xml."""
import json, sys
import xml.etree.ElementTree as ET

junit = sys.argv[1] if len(sys.argv) > 1 else "/tmp/fixdemo/junit.xml"
stable = json.load(open("/root/.vp/BASELINE.json"))["stable_pass"]
status = {}
for tc in ET.parse(junit).getroot().iter("testcase"):
    tid = f"{tc.get('classname')}::{tc.get('name')}"
    bad = [c.tag for c in tc if c.tag in ("failure", "error", "skipped")]
    st = bad[0] if bad else "passed"
    # a test id can appear twice (e.g. setup error + call); any non-pass wins
    if status.get(tid, "passed") == "passed":
        status[tid] = st
not_passed = [(t, status.get(t, "MISSING")) for t in stable if status.get(t) != "passed"]
for t, st in not_passed:
    print(f"{st:8s} {t}")
print(f"stable_pass: {len(stable)}  passing: {len(stable) - len(not_passed)}  not passing: {len(not_passed)}")
sys.exit(1 if not_passed else 0)
