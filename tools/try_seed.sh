#!/bin/bash
# usage: tools/try_seed.sh <prop-id> <seed-dir containing patch.diff demo.py> [check ids...]
# Applies the patch to a scratch worktree of /repo, runs the demo on both trees and the given checks (default: the property's own)
# from a private copy of /verif against the patched tree.  Nothing in /repo or /verif is modified.
id=$1; sd=$2; shift 2; checks=${@:-$id}
wt=/tmp/tryseed-$id-$$; vc=/tmp/vcopy-$id-$$
git -C /repo worktree add -q --detach $wt HEAD || exit 2
cp /repo/pydra/utils/_version.py $wt/pydra/utils/ 2>/dev/null
if ! git -C $wt apply $sd/patch.diff; then echo "PATCH DOES NOT APPLY"; git -C /repo worktree remove --force $wt; exit 2; fi
echo "== demo on unchanged /repo"; PYDRA_TREE=/repo PYTHONPATH=/repo timeout 600 /venv/bin/python $sd/demo.py > /tmp/demo-$id-clean.log 2>&1; echo "rc=$? (want 0)"; tail -2 /tmp/demo-$id-clean.log
echo "== demo on patched tree"; PYDRA_TREE=$wt PYTHONPATH=$wt timeout 600 /venv/bin/python $sd/demo.py > /tmp/demo-$id-mut.log 2>&1; echo "rc=$? (want 1)"; tail -3 /tmp/demo-$id-mut.log
rsync -a --exclude .git --exclude replays --exclude seeded /verif/ $vc/ 2>/dev/null
for c in $checks; do
  echo "== check $c against patched tree"
  (cd $vc && VERIF_REPO=$wt timeout 1800 ./check $c 2>&1 | grep -v "^KNOWN-FINDING" | tail -4 | cut -c1-300; echo "rc=${PIPESTATUS[0]}")
  ls $vc/replays 2>/dev/null | head -3
  mkdir -p /verif/seeded/$id/replays-$c; cp $vc/replays/$c-* /verif/seeded/$id/replays-$c/ 2>/dev/null
done
git -C /repo worktree remove --force $wt; rm -rf $vc
mkdir -p /verif/seeded/$id; cp $sd/patch.diff $sd/demo.py /verif/seeded/$id/ 2>/dev/null; cp $sd/meta.json /verif/seeded/$id/meta.agent.json 2>/dev/null
