#!/bin/bash
# usage: tools/suite_with_patches.sh <name> <seed ids...>
# Applies the seeded patches that apply cleanly together to one scratch worktree of /repo HEAD and runs the pinned baseline once
# (guard off).  Prints which patches were applied, which were left for another group, and the baseline comparison.
name=$1; shift
wt=/tmp/suite-$name
git -C /repo worktree add -q --detach $wt HEAD || exit 2
cp /repo/pydra/utils/_version.py $wt/pydra/utils/ 2>/dev/null
applied=(); skipped=()
for id in "$@"; do
  if git -C $wt apply --check /verif/seeded/$id/patch.diff 2>/dev/null; then git -C $wt apply /verif/seeded/$id/patch.diff; applied+=($id); else skipped+=($id); fi
done
echo "applied: ${applied[*]}"; echo "not applicable together (run in another group): ${skipped[*]}"
cd $wt && env -u NIPYPE_PYDRA_VERIF PYTHONPATH=$wt /venv/bin/python -m pytest -q -p no:cacheprovider --timeout=900 --continue-on-collection-errors -n 12 --junitxml=/tmp/suite-$name.xml > /tmp/suite-$name.log 2>&1
tail -1 /tmp/suite-$name.log
/venv/bin/python /verif/tools/compare_baseline.py /tmp/suite-$name.xml | tail -8
git -C /repo worktree remove --force $wt
