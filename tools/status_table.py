"""Print the per-property status table (markdown) from the property modules, known findings and seeded results."""
import importlib, json, os, glob, sys
sys.path.insert(0, '/verif')
ready = set(open('/verif/harness/ready.txt').read().split())
kf = {}
for f in ['/verif/known_findings.json'] + sorted(glob.glob('/verif/known_findings.d/*.json')):
    for x in json.load(open(f)).get('findings', []):
        kf.setdefault(x['property'], []).append(x['id'])
props = {json.loads(l)['id']: json.loads(l) for l in open('/verif/properties.jsonl')}
print("| id | engine | obligations | open findings | seeded change (round 1) | second seeded change (round 2) | check |")
print("|---|---|---|---|---|---|---|")
for pid in sorted(props):
    try:
        m = importlib.import_module(f'harness.props.{pid}')
        eng = m.META.get('engine', '?'); nob = len(m.OBLIGATIONS)
    except Exception as e:
        eng, nob = '-', 0
    sm = f'/verif/seeded/{pid}/meta.json'
    seed = '-'
    if os.path.exists(sm):
        d = json.load(open(sm))['detected_by'].get(pid, '')
        seed = 'caught' if d.startswith('VIOLATION') else ('missed first, caught after extension' if 'MISSED' in d and 'VIOLATION' in d else ('weak first, caught after fix' if 'VIOLATION' in d else 'MISSED (open)'))
    def verdict(path):
        if not os.path.exists(path):
            return '-'
        d = json.load(open(path))['detected_by'].get(pid, '')
        if d.startswith('VIOLATION'):
            return 'caught'
        if 'MISSED' in d:
            return 'missed first, caught after extension' if 'VIOLATION' in d else 'MISSED (open)'
        low = d.lower()
        if 'after' in low and 'VIOLATION' in d[low.index('after'):]:
            return 'weak first, caught after extension'
        return 'weak (open)' if 'no-failing-input-found' in d else 'MISSED (open)'
    seed = verdict(sm) if seed != '-' else '-'
    seed2 = verdict(f'/verif/seeded/{pid}r2/meta.json')
    print(f"| {pid} | {eng} | {nob} | {', '.join(kf.get(pid, [])) or '–'} | {seed} | {seed2} | {'claimed' if pid in ready else 'not claimed'} |")
